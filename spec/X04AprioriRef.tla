---------------------------- MODULE X04AprioriRef ----------------------------
(* Property-level Reference for the extension X04: the association-rule miner              *)
(* pkg/infrastructure/apriori (NewApriori(transactions).Calculate(NewOptions(minSupport,    *)
(* minConfidence, minLift, maxLength))) and its two users, evaluate's related-parameter     *)
(* search and git's related-file search.                                                   *)
(*                                                                                         *)
(* STATEMENT (miner).  For any finite list of transactions (each a list of item names,      *)
(* possibly with repeated items and repeated transactions) and any options with             *)
(* minSupport > 0, minConfidence >= 0, minLift >= 0, maxLength >= 0:                        *)
(*   support(S) = (number of transactions containing every item of S) / (number of          *)
(*                transactions); an item repeated inside a transaction counts once;         *)
(*   S is FREQUENT iff S is non-empty, support(S) >= minSupport, and |S| <= maxLength       *)
(*                when maxLength > 0;                                                       *)
(*   the RULES of S are its (base, add) splits, base \cup add = S, disjoint, add # {};      *)
(*                confidence = support(S) / support(base)   (support({}) = 1),              *)
(*                lift       = confidence / support(add);                                   *)
(*                a rule PASSES iff confidence >= minConfidence and lift >= minLift;        *)
(*   (1) the result holds at most one relation record per item set, only for frequent sets, *)
(*       each with exactly support(S);                                                      *)
(*   (2) the ordered statistics of the record of S are rules of S that pass, each with      *)
(*       exactly its confidence and lift, none twice; they include every passing rule with  *)
(*       a single added item (base = S minus one item; for a one-item set that is the rule  *)
(*       {} => {x} with confidence = support, lift = 1);                                    *)
(*   (3) a frequent set has a record iff it has a passing rule (the upstream convention,    *)
(*       apyori `if not ordered_statistics: continue`: a set none of whose rules passes     *)
(*       yields no record);                                                                 *)
(*   (4) nothing else; the result (as a set of records, each a set of rules) does not       *)
(*       depend on the order of the transactions or of the items inside a transaction.      *)
(*                                                                                         *)
(* Where this comes from.  The package is a vendored copy of eMAGTechLabs/go-apriori, a     *)
(* port of the Python library apyori; its only documentation is the field comments of       *)
(* Options ("The minimum support / confidence / lift of relations", "The maximum length of  *)
(* the relation"), "Empty items are supported by all transactions", "Empty transactions     *)
(* supports no items" and the error "minimum support must be > 0".  Conventions decided:    *)
(*   D1  which rules.  The port generates only the rules whose base has |S|-1 items         *)
(*       (`combinations(items, len(items)-1)`, as apyori 1.0 did; apyori 1.1 generates      *)
(*       every base length 0..|S|-1).  Neither is documented here, so the single-added-item *)
(*       rules are REQUIRED and the others are allowed:                                     *)
(*       Free_X04_WiderRules   a rule with |add| >= 2 (this includes the empty base of a    *)
(*                             set of >= 2 items) may be listed, if it passes and its       *)
(*                             numbers are right.                                           *)
(*   D2  the empty base IS a rule for a one-item set (confidence = support, lift = 1); with *)
(*       it a frequent single item has a record whenever minConfidence <= its support and   *)
(*       minLift <= 1.                                                                      *)
(*   D3  maxLength = 0 means "no limit" (`maxLength != 0 && length > maxLength`); negative  *)
(*       values are outside the quantifier.  minSupport <= 0 is rejected by the code with   *)
(*       the documented error and is outside the quantifier.                                *)
(*   D4  numbers.  The statement is over the rationals; the code computes in float64.  The  *)
(*       harness reports every float as the fraction num/den with the smallest denominator  *)
(*       <= 10000 that lies within 1e-9 of it (ok = FALSE when there is none), and the       *)
(*       Reference compares fractions by cross-multiplication.  Thresholds are handed to    *)
(*       the code as float64(num)/float64(den).                                            *)
(*       Free_X04_FloatTie     when a rule's exact confidence equals minConfidence (or its  *)
(*                             exact lift equals minLift) the float quotient of two rounded *)
(*                             quotients may fall on either side: such a rule may be listed *)
(*                             or not (and with it possibly its record), EXCEPT where the   *)
(*                             float computation is exact: confidence x/x = 1, confidence   *)
(*                             x/1.0 (empty base), lift x/x = 1 (empty base).  Support ties  *)
(*                             are never free (one correctly rounded division each side).   *)
(*   D5  the order of records, of statistics, and of items inside base/add/items is not     *)
(*       part of the statement (judged as sets; items inside one list must not repeat).     *)
(*                                                                                         *)
(* STATEMENT (users).  Nothing is documented about either (README shows `"RelatedMethod":   *)
(* null` only; `coca git -r` has the help text "related"); what follows is what the code    *)
(* sets out to do, written down as a promise and marked [code].                            *)
(*   evaluate [code]  the long-parameter methods are the methods with >= 4 parameters of    *)
(*       the classes whose name contains "service" (any case); one transaction per such     *)
(*       method = its parameter names.  ServiceSummary.RelatedMethod is empty iff no group  *)
(*       of >= 4 names is frequent with minSupport 0.8 (no length limit); otherwise it is   *)
(*       such a group.  WHICH one depends on the order of the miner's records (the last     *)
(*       record of >= 4 items wins), so the Reference demands only that it is a MAXIMAL     *)
(*       frequent group (no frequent proper superset), without repeated names.             *)
(*   git [code]  one transaction per commit that changes at most 10 files = its changed     *)
(*       files that end in ".java" but not in "Test.java" (a path containing                *)
(*       "core/main/java/" is named by what follows that marker, "/" replaced by "."),      *)
(*       kept only if it has >= 3 such files.  With the options of the configuration file   *)
(*       (defaults: minSupport 0.1, minConfidence 0.9, minLift 0, no length limit) the      *)
(*       related files are EXACTLY the item sets of >= 3 files among the miner's relation   *)
(*       records, each once.  Through the command line (`coca git -r <config>`) the related *)
(*       files must at least be mentioned in what the command prints.                      *)
(*                                                                                         *)
(* Record shapes (JSON shared by the TLC generator, the Go renderer and the validator):     *)
(*   Q      = [num, den, ok]                                                                *)
(*   Opt    = [sup : [num, den], conf : [num, den], lift : [num, den], maxlen]             *)
(*   miner    input [kind |-> "miner", tx, tx2 : Seq(Seq(Str)), opt]   tx2 = tx reordered   *)
(*            observed [panic, runs : Seq([records : Seq([items, support : Q,              *)
(*                      stats : Seq([base, add, conf : Q, lift : Q])])])]  run 1 tx, 2 tx2  *)
(*   evaluate input [kind |-> "evaluate", via, classes : Seq([name, service,                *)
(*                      methods : Seq([name, params : Seq(Str)])])]                         *)
(*            observed [panic, wellformed, related : Seq(Str)]                              *)
(*   git      input [kind |-> "git", via, commits : Seq([changes : Seq([pre, core, segs])]),*)
(*                      opt]   a changed file is written pre \o ("core/main/java/" if core) *)
(*                      \o segs joined by "/"; pre and segs never contain that marker       *)
(*            observed [panic, groups : Seq(Seq(Str)), mentions : Seq(Str)]                 *)
(* Written from the statement above, not from the code: brute force over SUBSET of the      *)
(* item universe (keep universes <= 6 items, <= 8..12 transactions).                        *)
EXTENDS Integers, Sequences, FiniteSets, TLC

Range(s) == {s[i] : i \in DOMAIN s}

\* ------------------------------------------------------------------ rationals (den > 0)
QLe(a, b) == a.num * b.den <= b.num * a.den
QEq(a, b) == a.num * b.den = b.num * a.den
QLt(a, b) == a.num * b.den < b.num * a.den
Q(n, d) == [num |-> n, den |-> d]
\* an observed number equals the exact fraction
ObsIs(o, q) == o.ok /\ o.den > 0 /\ o.num * q.den = q.num * o.den

\* ------------------------------------------------------------------ the statement, by brute force
Universe(tx) == UNION {Range(tx[i]) : i \in DOMAIN tx}
N(tx) == Len(tx)
Count(tx, S) == Cardinality({i \in DOMAIN tx : S \subseteq Range(tx[i])})      \* Count(tx, {}) = N(tx)
Support(tx, S) == Q(Count(tx, S), N(tx))

Frequent(tx, opt, S) ==
  /\ S # {}
  /\ N(tx) > 0
  /\ QLe(opt.sup, Support(tx, S))
  /\ (opt.maxlen > 0 => Cardinality(S) <= opt.maxlen)

FrequentSets(tx, opt) == {S \in SUBSET Universe(tx) : Frequent(tx, opt, S)}

\* rule base => add of the frequent set S = base \cup add  (all counts are > 0 because S is frequent)
Conf(tx, base, add) == Q(Count(tx, base \cup add), Count(tx, base))
Lift(tx, base, add) == Q(Count(tx, base \cup add) * N(tx), Count(tx, base) * Count(tx, add))

\* Free_X04_FloatTie: is the float computation of a tie exact?
ConfExact(tx, base, add) == Count(tx, base \cup add) = Count(tx, base) \/ base = {}
LiftExact(tx, base, add) == base = {}

\* "pass" | "tie" (free) | "fail"
Status(tx, opt, base, add) ==
  LET c == Conf(tx, base, add)
      l == Lift(tx, base, add)
  IN  IF QLt(c, opt.conf) \/ QLt(l, opt.lift) THEN "fail"
      ELSE IF (QEq(c, opt.conf) /\ ~ConfExact(tx, base, add)) \/ (QEq(l, opt.lift) /\ ~LiftExact(tx, base, add)) THEN "tie"
      ELSE "pass"

Splits(S) == {<<S \ A, A>> : A \in (SUBSET S) \ {{}}}                 \* <<base, add>>
SingleSplits(S) == {<<S \ {x}, {x}>> : x \in S}

MustStats(tx, opt, S) == {sp \in SingleSplits(S) : Status(tx, opt, sp[1], sp[2]) = "pass"}
MayStats(tx, opt, S)  == {sp \in Splits(S) : Status(tx, opt, sp[1], sp[2]) # "fail"}      \* Free_X04_WiderRules, Free_X04_FloatTie

MustRecord(tx, opt, S) == Frequent(tx, opt, S) /\ MustStats(tx, opt, S) # {}
MayRecord(tx, opt, S)  == Frequent(tx, opt, S) /\ MayStats(tx, opt, S) # {}

-----------------------------------------------------------------------------
(* Known-defect shapes (spec-computed, narrow) *)

\* an item occurs twice in one transaction: the code counts occurrences, not transactions
TagRepeated == "apriori.repeated-item-in-transaction"
\* an item is literally named "STOP": the code uses that string as the in-band end marker of its channels
TagStop == "apriori.item-named-STOP"
\* `coca git -r` computes the related files and drops them
TagCliDiscards == "git.related.cli-discards-result"

RepeatedItems(tx) == {x \in Universe(tx) : \E i \in DOMAIN tx : Cardinality({k \in DOMAIN tx[i] : tx[i][k] = x}) > 1}
\* tags of a discrepancy that concerns the item set S (everything the code computes for S is computed from the items of S)
TagsFor(tx, S) == (IF S \cap RepeatedItems(tx) # {} THEN {TagRepeated} ELSE {})
                  \cup (IF "STOP" \in Universe(tx) THEN {TagStop} ELSE {})
TagsCrash(tx) == (IF "STOP" \in Universe(tx) THEN {TagStop} ELSE {})
TagsAny(tx) == (IF RepeatedItems(tx) # {} THEN {TagRepeated} ELSE {}) \cup TagsCrash(tx)

-----------------------------------------------------------------------------
(* Diff, miner *)

Item(k, w, t) == [prop |-> "X04", kind |-> k, where |-> w, tags |-> t]

RECURSIVE JoinSet(_)
JoinSet(S) == IF S = {} THEN "" ELSE LET x == CHOOSE y \in S : TRUE IN x \o (IF S = {x} THEN "" ELSE ",") \o JoinSet(S \ {x})
Show(S) == "{" \o JoinSet(S) \o "}"
ShowRule(sp) == Show(sp[1]) \o "=>" \o Show(sp[2])

NoRepeat(s) == Cardinality(Range(s)) = Len(s)
SplitOf(st) == <<Range(st.base), Range(st.add)>>

\* the statistics of one observed record of the set S
DiffStats(tx, opt, S, r) ==
  LET obs == {SplitOf(r.stats[k]) : k \in DOMAIN r.stats}
      t == TagsFor(tx, S)
      wellformed(k) == /\ NoRepeat(r.stats[k].base) /\ NoRepeat(r.stats[k].add)
                       /\ SplitOf(r.stats[k]) \in Splits(S)
  IN  {Item("missing-stat", ShowRule(sp), t) : sp \in MustStats(tx, opt, S) \ obs}
      \cup {Item("spurious-stat", ShowRule(SplitOf(r.stats[k])), t)
              : k \in {j \in DOMAIN r.stats : ~wellformed(j) \/ SplitOf(r.stats[j]) \notin MayStats(tx, opt, S)}}
      \cup {Item("duplicate-stat", ShowRule(SplitOf(r.stats[k])), t)
              : k \in {j \in DOMAIN r.stats : \E i \in 1..j - 1 : SplitOf(r.stats[i]) = SplitOf(r.stats[j])}}
      \cup {Item("stat-value", ShowRule(SplitOf(r.stats[k])), t)
              : k \in {j \in DOMAIN r.stats :
                         /\ wellformed(j)
                         /\ LET sp == SplitOf(r.stats[j])
                            IN  ~ObsIs(r.stats[j].conf, Conf(tx, sp[1], sp[2])) \/ ~ObsIs(r.stats[j].lift, Lift(tx, sp[1], sp[2]))}}

DiffRecords(tx, opt, recs) ==
  LET U == Universe(tx)
      setOf(k) == Range(recs[k].items)
      obsSets == {setOf(k) : k \in DOMAIN recs}
      inU(k) == setOf(k) \subseteq U /\ NoRepeat(recs[k].items)
      known == {k \in DOMAIN recs : inU(k) /\ MayRecord(tx, opt, setOf(k))}
  IN  {Item("missing-record", Show(S), TagsFor(tx, S)) : S \in {X \in SUBSET U : MustRecord(tx, opt, X)} \ obsSets}
      \cup {Item("spurious-record", Show(setOf(k)), TagsFor(tx, setOf(k))) : k \in DOMAIN recs \ known}
      \cup {Item("duplicate-record", Show(setOf(k)), TagsFor(tx, setOf(k)))
              : k \in {j \in DOMAIN recs : \E i \in 1..j - 1 : setOf(i) = setOf(j)}}
      \cup {Item("support", Show(setOf(k)), TagsFor(tx, setOf(k)))
              : k \in {j \in known : ~ObsIs(recs[j].support, Support(tx, setOf(j)))}}
      \cup UNION {DiffStats(tx, opt, setOf(k), recs[k]) : k \in known}

\* (4) order independence: the two runs, as sets of records, each a set of rules with their numbers
Canon(recs) ==
  {[items |-> Range(recs[k].items), support |-> recs[k].support,
    stats |-> {[base |-> Range(recs[k].stats[j].base), add |-> Range(recs[k].stats[j].add),
                conf |-> recs[k].stats[j].conf, lift |-> recs[k].stats[j].lift] : j \in DOMAIN recs[k].stats}]
     : k \in DOMAIN recs}

DiffMiner(in, o) ==
  IF o.panic THEN {Item("panic", "", TagsCrash(in.tx))}
  ELSE IF Len(o.runs) # 2 THEN {Item("malformed-output", "", {})}
  ELSE DiffRecords(in.tx, in.opt, o.runs[1].records)
       \cup DiffRecords(in.tx2, in.opt, o.runs[2].records)
       \cup (IF Canon(o.runs[1].records) = Canon(o.runs[2].records) THEN {}
             ELSE {Item("order-dependent", "", TagsAny(in.tx))})

-----------------------------------------------------------------------------
(* Diff, evaluate  [code] *)

OptEvaluate == [sup |-> Q(4, 5), conf |-> Q(4, 5), lift |-> Q(0, 1), maxlen |-> 0]
MinGroupEvaluate == 4

\* the long-parameter methods of the service classes, one transaction each
RECURSIVE Flatten(_)
Flatten(ss) == IF ss = <<>> THEN <<>> ELSE Head(ss) \o Flatten(Tail(ss))
LongMethods(cls) == SelectSeq(cls.methods, LAMBDA m : Len(m.params) >= 4)
EvalDataset(in) ==
  Flatten([i \in DOMAIN in.classes |->
             IF in.classes[i].service
             THEN LET ms == LongMethods(in.classes[i]) IN [k \in DOMAIN ms |-> ms[k].params]
             ELSE <<>>])

DiffEvaluate(in, o) ==
  LET tx == EvalDataset(in)
      opt == OptEvaluate
      groups == {S \in FrequentSets(tx, opt) : Cardinality(S) >= MinGroupEvaluate}
      got == Range(o.related)
  IN  IF o.panic THEN {Item("panic", "", TagsCrash(tx))}
      ELSE IF ~o.wellformed THEN {Item("malformed-output", "", {})}
      ELSE IF o.related = <<>>
           THEN {Item("related-missing", Show(S), TagsFor(tx, S)) : S \in groups}
           ELSE (IF ~NoRepeat(o.related) THEN {Item("related-repeats-a-name", Show(got), TagsFor(tx, got))} ELSE {})
                \cup (IF got \notin groups THEN {Item("related-not-a-frequent-group", Show(got), TagsFor(tx, got \cap Universe(tx)) \cup TagsAny(tx))}
                      ELSE IF \E S \in groups : got \subseteq S /\ S # got
                           THEN {Item("related-not-maximal", Show(got), TagsFor(tx, got))}
                           ELSE {})

-----------------------------------------------------------------------------
(* Diff, git  [code] *)

MaxChangesGit == 10
MinGroupGit == 3
Marker == "core/main/java/"

RECURSIVE Join(_, _)
Join(segs, sep) == IF Len(segs) = 0 THEN "" ELSE IF Len(segs) = 1 THEN segs[1] ELSE segs[1] \o sep \o Join(Tail(segs), sep)
EndsWith(s, suf) == Len(s) >= Len(suf) /\ SubSeq(s, Len(s) - Len(suf) + 1, Len(s)) = suf
Last(s) == s[Len(s)]

\* the path as git prints it, and the name the related-file search gives it
PathOf(f) == f.pre \o (IF f.core THEN Marker ELSE "") \o Join(f.segs, "/")
NameOf(f) == IF f.core THEN Join(f.segs, ".") ELSE PathOf(f)
IsSource(f) == Len(f.segs) > 0 /\ EndsWith(Last(f.segs), ".java") /\ ~EndsWith(Last(f.segs), "Test.java")

CommitTx(c) == LET src == SelectSeq(c.changes, IsSource) IN [k \in DOMAIN src |-> NameOf(src[k])]
GitDataset(in) ==
  LET keep == SelectSeq(in.commits, LAMBDA c : Len(c.changes) <= MaxChangesGit /\ Len(CommitTx(c)) >= MinGroupGit)
  IN  [k \in DOMAIN keep |-> CommitTx(keep[k])]

DiffGit(in, o) ==
  LET tx == GitDataset(in)
      opt == in.opt
      U == Universe(tx)
      must == {S \in SUBSET U : Cardinality(S) >= MinGroupGit /\ MustRecord(tx, opt, S)}
      may  == {S \in SUBSET U : Cardinality(S) >= MinGroupGit /\ MayRecord(tx, opt, S)}
      setOf(k) == Range(o.groups[k])
      obs == {setOf(k) : k \in DOMAIN o.groups}
  IN  IF o.panic THEN {Item("panic", "", TagsCrash(tx))}
      ELSE IF in.via = "cli"
      THEN \* the command line: every related file is at least mentioned in what is printed
           {Item("related-files-not-shown", Show(S), {TagCliDiscards} \cup TagsFor(tx, S))
              : S \in {X \in must : ~(X \subseteq Range(o.mentions))}}
      ELSE {Item("missing-group", Show(S), TagsFor(tx, S)) : S \in must \ obs}
           \cup {Item("spurious-group", Show(setOf(k)), TagsFor(tx, setOf(k) \cap U) \cup (IF setOf(k) \subseteq U THEN {} ELSE TagsAny(tx)))
                   : k \in {j \in DOMAIN o.groups : setOf(j) \notin may \/ ~NoRepeat(o.groups[j])}}
           \cup {Item("duplicate-group", Show(setOf(k)), TagsFor(tx, setOf(k)))
                   : k \in {j \in DOMAIN o.groups : \E i \in 1..j - 1 : setOf(i) = setOf(j)}}

-----------------------------------------------------------------------------
Diff(rec) ==
  CASE rec.input.kind = "miner"    -> DiffMiner(rec.input, rec.observed)
    [] rec.input.kind = "evaluate" -> DiffEvaluate(rec.input, rec.observed)
    [] rec.input.kind = "git"      -> DiffGit(rec.input, rec.observed)
=============================================================================
