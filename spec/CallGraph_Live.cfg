\* termination (liveness under weak fairness, no state constraint) + DI / api / lookup histories,
\* call lists of length <= 1 over declared, external, unresolved and creation callees
SPECIFICATION Spec
CONSTANTS
  MaxCalls = 1
  WithExt = TRUE
  WithDI = TRUE
  Kinds = {"call", "rcall", "lookup", "api"}
INVARIANTS C03_EdgeSound C03_BudgetBound C04_EdgeSound C03_C04_Reference C07_SameTwice Emit
PROPERTY C03_C04_Terminates
