\* thorough: every list of <= 4 transactions (sets of <= 3 of 4 items), 4 option settings: 216 964 inputs
SPECIFICATION Spec
CONSTANTS
  ItemPool = "abcd"
  MaxTx = 4
  MinTxLen = 0
  MaxTxLen = 3
  Ascending = TRUE
  Mode = "miner"
  OptPool = "four"
  IndexForm = "occurrences"
  Sentinel = "inband"
INVARIANTS X04_ResultExactOrTagged X04_CandidatesComplete X04_NoFrequentSetLost X04_CandidateShape X04_IndexTable Emit
