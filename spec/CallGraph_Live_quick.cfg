\* quick: termination (liveness under weak fairness, no state constraint) on DI / api / lookup histories
SPECIFICATION Spec
CONSTANTS
  MaxCalls = 1
  WithExt = FALSE
  WithDI = TRUE
  Kinds = {"lookup", "api"}
INVARIANTS C03_EdgeSound C03_BudgetBound C04_EdgeSound C03_C04_Reference C07_SameTwice Emit
PROPERTY C03_C04_Terminates
