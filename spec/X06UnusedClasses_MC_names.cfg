\* namesakes and the default package: entries and callees over {"", "x"} x {"y", "Z"} (".y" and "x.y" are different
\* classes, a class without package is ".y"); <= 2 entries, <= 1 class-level call, <= 1 function of <= 1 call
SPECIFICATION Spec
CONSTANTS
  MaxDeps = 2
  MaxField = 1
  MaxFns = 1
  MaxCalls = 1
  MaxInner = 0
  Pkgs = {"", "x"}
  ClassNames = {"y", "Z"}
  CalleePkgs = {"", "x"}
  CalleeNames = {"y", "Z"}
  SelfCalls = "skip"
  ClassLevel = "read"
  InnerCalls = "read"
INVARIANTS X06_Exact X06_Once X06_Sorted X06_Tables X06_ExcludeOnce Emit
