\* thorough (layout): all eol / final-newline combinations of both files
SPECIFICATION Spec
CONSTANTS
  Pool = "layout"
  NameRule = "file"
  CopyNode = TRUE
  KeepCR = TRUE
INVARIANTS X01_MovedExactly X01_NoCrash X01_OtherProjectsUntouched X01_TablesNotMixed Emit
