SPECIFICATION Spec
CONSTANTS
  MaxFiles = 2
  MaxMethods = 2
  MaxStmts = 3
  MaxFields = 2
VIEW View
INVARIANTS C02_ReceiverResolved Emit
PROPERTY C07_ScopeReset
