------------------------------ MODULE GitRef ------------------------------
(* Property-level Reference for commit-log parsing (C14) and the git summaries (C15). *)
(* rec.history : Seq([author, date, subject, cctype, merge, ops : Seq([op, path, to,  *)
(*                     add, del, notation])])   the abstract history the harness built *)
(* rec.facts   : Seq([rev, author, date, subject, merge, changes : Seq([file, added,  *)
(*                     deleted, mode]), hist])  what git itself reports (log order)    *)
(* rec.observed: commits (as parsed by coca), team, top, basic, age, changelog         *)
EXTENDS Naturals, Integers, Sequences, FiniteSets, TLC

Range(s) == {s[i] : i \in DOMAIN s}
Item(p, k, w, t) == [prop |-> p, kind |-> k, where |-> w, tags |-> t]

-----------------------------------------------------------------------------
(* C14 *)

\* in log order, one entry per non-merge commit that changes at least one file
ExpCommits(rec) == SelectSeq(rec.facts, LAMBDA c : ~c.merge /\ c.changes # <<>>)

ChangeSet(cs) == {[file |-> cs[i].file, added |-> cs[i].added, deleted |-> cs[i].deleted, mode |-> cs[i].mode] : i \in DOMAIN cs}
FilesOf(cs) == [i \in DOMAIN cs |-> cs[i].file]

DiffCommit(e, o, allObs, k) ==
  LET w == e.rev
      ec == ChangeSet(e.changes)
      oc == ChangeSet(o.changes)
      elsewhere(ch) == \E j \in DOMAIN allObs : j # k /\ ch \in ChangeSet(allObs[j].changes)
  IN  (IF o.author = e.author THEN {} ELSE {Item("C14", "wrong-author", w, {})}) \cup
      (IF o.date = e.date THEN {} ELSE {Item("C14", "wrong-date", w, {})}) \cup
      (IF o.msg = e.subject THEN {} ELSE {Item("C14", "wrong-subject", w, {})}) \cup
      {Item("C14", IF elsewhere(ch) THEN "change-under-other-commit" ELSE "missing-change", w \o " " \o ch.file, {}) : ch \in ec \ oc} \cup
      {Item("C14", "unexpected-change", w \o " " \o ch.file, {}) : ch \in oc \ ec} \cup
      (IF Len(o.changes) # Cardinality(oc) THEN {Item("C14", "duplicated-change", w, {})} ELSE {})

DiffLog(rec) ==
  LET exp == ExpCommits(rec)
      obs == rec.observed.commits
      erevs == [i \in DOMAIN exp |-> exp[i].rev]
      orevs == [i \in DOMAIN obs |-> obs[i].rev]
      pos(r) == CHOOSE j \in DOMAIN obs : obs[j].rev = r
  IN  IF rec.observed.cliFailed THEN {Item("C14", "command-failed", "", {})}
      ELSE
        {Item("C14", "missing-commit", r, {}) : r \in Range(erevs) \ Range(orevs)} \cup
        {Item("C14", "unexpected-commit", r, {}) : r \in Range(orevs) \ Range(erevs)} \cup
        (IF Len(orevs) # Cardinality(Range(orevs)) THEN {Item("C14", "duplicated-commit", "", {})} ELSE {}) \cup
        (IF SelectSeq(orevs, LAMBDA r : r \in Range(erevs)) = SelectSeq(erevs, LAMBDA r : r \in Range(orevs)) THEN {}
         ELSE {Item("C14", "log-order", "", {})}) \cup
        UNION {IF exp[i].rev \in Range(orevs) THEN DiffCommit(exp[i], obs[pos(exp[i].rev)], obs, pos(exp[i].rev)) ELSE {} : i \in DOMAIN exp}

-----------------------------------------------------------------------------
(* C15: file identity is tracked through renames over the abstract history *)

\* the commits the summaries see: history entries that change at least one file, in order
Eff(rec) == SelectSeq([i \in DOMAIN rec.history |-> [idx |-> i, c |-> rec.history[i]]], LAMBDA x : x.c.ops # <<>>)

NoInfo == [revs |-> {}, authors |-> {}, first |-> ""]
\* state: live : path -> [revs, authors, first (since the path's latest creation), arevs, aauthors, afirst (over every
\*         life of that path name)];  past : deleted path -> what its name had accumulated;  gone : paths deleted at
\*         least once;  odd : paths that were the TARGET of a rename while a file of that name had been deleted before
ApplyOp(st, op, i, c) ==
  LET touch(info) == [revs |-> info.revs \cup {i}, authors |-> info.authors \cup {c.author},
                      first |-> IF info.first = "" THEN c.date ELSE info.first,
                      arevs |-> info.arevs \cup {i}, aauthors |-> info.aauthors \cup {c.author},
                      afirst |-> IF info.afirst = "" THEN c.date ELSE info.afirst]
      live == st.live
      base(p) == IF p \in DOMAIN st.past THEN st.past[p] ELSE NoInfo
      fresh(p) == [revs |-> {}, authors |-> {}, first |-> "", arevs |-> base(p).revs, aauthors |-> base(p).authors, afirst |-> base(p).first]
  IN  CASE op.op \in {"add", "addbin", "addlink"} ->
             [st EXCEPT !.live = [p \in DOMAIN live \cup {op.path} |-> IF p = op.path THEN touch(fresh(p)) ELSE live[p]]]
        [] op.op \in {"modify", "chmod"} ->
             [st EXCEPT !.live = [p \in DOMAIN live |-> IF p = op.path THEN touch(live[p]) ELSE live[p]]]
        [] op.op = "delete" ->
             [st EXCEPT !.live = [p \in DOMAIN live \ {op.path} |-> live[p]], !.gone = st.gone \cup {op.path},
                        !.past = IF op.path \in DOMAIN live
                                 THEN [p \in DOMAIN st.past \cup {op.path} |->
                                         IF p = op.path THEN [revs |-> live[p].arevs, authors |-> live[p].aauthors, first |-> live[p].afirst]
                                         ELSE st.past[p]]
                                 ELSE st.past]
        [] op.op = "rename" ->
             [st EXCEPT !.live = [p \in (DOMAIN live \ {op.path}) \cup {op.to} |-> IF p = op.to THEN touch(live[op.path]) ELSE live[p]],
                        !.odd = IF op.to \in st.gone THEN st.odd \cup {op.to} ELSE st.odd]

RECURSIVE ApplyOps(_, _, _, _, _), ApplyCommits(_, _, _)
ApplyOps(st, ops, k, i, c) == IF k > Len(ops) THEN st ELSE ApplyOps(ApplyOp(st, ops[k], i, c), ops, k + 1, i, c)
ApplyCommits(st, eff, k) == IF k > Len(eff) THEN st ELSE ApplyCommits(ApplyOps(st, eff[k].c.ops, 1, eff[k].idx, eff[k].c), eff, k + 1)
Final(rec) == ApplyCommits([live |-> <<>>, gone |-> {}, past |-> <<>>, odd |-> {}], Eff(rec), 1)

HasRename(rec) == \E i \in DOMAIN rec.history : \E k \in DOMAIN rec.history[i].ops : rec.history[i].ops[k].op = "rename"

NonIncreasing(s, key(_)) == \A i \in 1..Len(s) - 1 : key(s[i]) >= key(s[i + 1])

DiffSummaries(rec) ==
  LET o == rec.observed
      fin == Final(rec)
      live == fin.live
      \* Free_C15_Recreated: a path that was deleted and later created again exists, so it is reported; "the commits
      \* that touched it" may be counted since its latest creation (what the fold does) or over every life of the name.
      \* Only the target of a rename onto a once-deleted name is not judged (odd).
      judged == {p \in DOMAIN live : p \notin fin.odd}
      teamOK(t, p) == t.name = p /\ ((t.authors = Cardinality(live[p].authors) /\ t.revs = Cardinality(live[p].revs))
                                     \/ (t.authors = Cardinality(live[p].aauthors) /\ t.revs = Cardinality(live[p].arevs)))
      obsTeam == {o.team[i] : i \in DOMAIN o.team}
      ageOK(a, p) == a.name = p /\ a.date \in {live[p].first, live[p].afirst}
      obsAge == {[name |-> o.age[i].name, date |-> o.age[i].date] : i \in DOMAIN o.age}
      eff == Eff(rec)
      \* a synthesised list may keep the commits without any change (rec.keepEmpty): they are commits of the list
      facts == SelectSeq(rec.facts, LAMBDA c : ~c.merge /\ (rec.keepEmpty \/ c.changes # <<>>))
      auths == {facts[i].author : i \in DOMAIN facts}
      RECURSIVE Net(_, _)
      Net(cs, k) == IF k > Len(cs) THEN 0 ELSE cs[k].added - cs[k].deleted + Net(cs, k + 1)
      RECURSIVE NetOf(_, _)
      NetOf(a, i) == IF i > Len(facts) THEN 0 ELSE (IF facts[i].author = a THEN Net(facts[i].changes, 1) ELSE 0) + NetOf(a, i + 1)
      expTop == {[name |-> a, commits |-> Cardinality({i \in DOMAIN facts : facts[i].author = a}), lines |-> NetOf(a, 1)] : a \in auths}
      obsTop == {o.top[i] : i \in DOMAIN o.top}
      paths == UNION {{eff[i].c.ops[k].path : k \in DOMAIN eff[i].c.ops} : i \in DOMAIN eff}
      \* changelog: per conventional-commit type, how many commits of that type touched each file
      types == {eff[i].c.cctype : i \in DOMAIN eff} \ {""}
      keyOf(op) == IF op.op = "rename" THEN op.to ELSE op.path
      \* Free_C15_ArrowRenameKey: the key under which a full-path rename `a => b` is counted
      judgedOp(op) == ~(op.op = "rename" /\ op.notation = "arrow")
      cnt(t, f) == Cardinality({i \in DOMAIN eff : eff[i].c.cctype = t /\ \E k \in DOMAIN eff[i].c.ops : judgedOp(eff[i].c.ops[k]) /\ keyOf(eff[i].c.ops[k]) = f})
      keys(t) == UNION {{keyOf(eff[i].c.ops[k]) : k \in {k \in DOMAIN eff[i].c.ops : judgedOp(eff[i].c.ops[k])}} : i \in {i \in DOMAIN eff : eff[i].c.cctype = t}}
      arrowFree == \E i \in DOMAIN eff : \E k \in DOMAIN eff[i].c.ops : ~judgedOp(eff[i].c.ops[k])
      expLog == UNION {{[type |-> t, file |-> f, count |-> cnt(t, f)] : f \in keys(t)} : t \in types}
      obsLog == {o.changelog[i] : i \in DOMAIN o.changelog}
  IN  IF o.panic THEN {Item("C15", "panic", "", {})}
      ELSE
        {Item("C15", "team-missing-or-wrong", p, {}) : p \in {p \in judged : ~\E t \in obsTeam : teamOK(t, p)}} \cup
        {Item("C15", "team-unexpected", t.name, {}) : t \in {t \in obsTeam : t.name \notin fin.odd /\ ~\E p \in judged : teamOK(t, p)}} \cup
        (IF Len(o.team) # Cardinality({o.team[i].name : i \in DOMAIN o.team}) THEN {Item("C15", "team-duplicated", "", {})} ELSE {}) \cup
        (IF NonIncreasing(o.team, LAMBDA t : t.revs) THEN {} ELSE {Item("C15", "team-not-sorted", "", {})}) \cup
        {Item("C15", "age-missing-or-wrong", p, {}) : p \in {p \in judged : ~\E a \in obsAge : ageOK(a, p)}} \cup
        {Item("C15", "age-unexpected", a.name, {}) : a \in {a \in obsAge : a.name \notin fin.odd /\ ~\E p \in judged : ageOK(a, p)}} \cup
        (IF Len(o.age) # Cardinality({o.age[i].name : i \in DOMAIN o.age}) THEN {Item("C15", "age-duplicated", "", {})} ELSE {}) \cup
        {Item("C15", "top-missing-or-wrong", t.name, {}) : t \in expTop \ obsTop} \cup
        {Item("C15", "top-unexpected", t.name, {}) : t \in obsTop \ expTop} \cup
        (IF NonIncreasing(o.top, LAMBDA t : t.commits) THEN {} ELSE {Item("C15", "top-not-sorted", "", {})}) \cup
        (IF o.basic.commits = Len(facts) THEN {} ELSE {Item("C15", "basic-commits", "", {})}) \cup
        (IF o.basic.authors = Cardinality(auths) THEN {} ELSE {Item("C15", "basic-authors", "", {})}) \cup
        \* Free_C15_EntitiesWithRenames: a rename line is one File string naming two paths
        (IF HasRename(rec) \/ o.basic.entities = Cardinality(paths) THEN {} ELSE {Item("C15", "basic-entities", "", {})}) \cup
        {Item("C15", "changelog-missing-or-wrong", e.type \o " " \o e.file, {}) : e \in expLog \ obsLog} \cup
        (IF arrowFree THEN {} ELSE {Item("C15", "changelog-unexpected", e.type \o " " \o e.file, {}) : e \in obsLog \ expLog})

BagOf(s) == [x \in Range(s) |-> Cardinality({i \in DOMAIN s : s[i] = x})]
\* the tables the command prints (`coca git -t`, `-a`, `-o`) are the summaries, row for row
DiffCli(o) ==
  IF ~o.cli.ran THEN {}
  ELSE IF ~o.cli.ok THEN {Item("C15", "cli-table-missing-or-malformed", "", {})}
  \* as collections: the order of rows with equal sort keys is not promised, and the two listings come from two processes
  ELSE (IF BagOf(o.cli.team) = BagOf(o.team) THEN {} ELSE {Item("C15", "cli-team-table-differs", ToString(Len(o.cli.team)) \o " rows for " \o ToString(Len(o.team)), {})}) \cup
       (IF BagOf(o.cli.age) = BagOf([i \in DOMAIN o.age |-> o.age[i].name]) THEN {} ELSE {Item("C15", "cli-age-table-differs", ToString(Len(o.cli.age)) \o " rows for " \o ToString(Len(o.age)), {})}) \cup
       (IF BagOf(o.cli.top) = BagOf(o.top) THEN {} ELSE {Item("C15", "cli-top-table-differs", ToString(Len(o.cli.top)) \o " rows for " \o ToString(Len(o.top)), {})})

\* code age oldest first: dates are ISO strings; the harness also gives each age entry its day number
AgeSorted(o) == \A i \in 1..Len(o.age) - 1 : o.age[i].day <= o.age[i + 1].day

Diff(rec) ==
  (IF rec.mode = "real" THEN DiffLog(rec) ELSE {}) \cup DiffSummaries(rec) \cup
  (IF rec.observed.panic THEN {} ELSE DiffCli(rec.observed)) \cup
  (IF rec.observed.panic \/ AgeSorted(rec.observed) THEN {} ELSE {Item("C15", "age-not-sorted", "", {})})
=============================================================================
