------------------------------ MODULE X09TodoGit ------------------------------
(* Implementation-shaped Machine of `coca todo -g`:                                           *)
(*   cmd/todo.go            todos := app.AnalysisPath(path, filters)                          Scan        *)
(*                          gitTodos := app.BuildWithGitHistory(todos)                         *)
(*   todo_app.go            for _, todo := range todos {                                      BlameTodo   *)
(*                            lineOutput := shell.RunGitGetLog(todo.Line, todo.Filename)       *)
(*                            commitMessages := git.BuildMessageByInput(lineOutput)            *)
(*                            if len(commitMessages) > 0 { Date, Author = commitMessages[0] }  *)
(*                            todoList = append(todoList, *todoDetail) }                       *)
(*   shell.go               git log -1 -L<line>:<file> --pretty="format:[%h] %aN %ad %s"      GitLogL     *)
(*                          --date=short; the first line of the output + "\n "                 *)
(*   git/log_parser.go      header = ^\[hash\] (author) (date) ?(subject)$                    ParseHeader *)
(* The history is chosen incrementally (one commit / one edit per action) and kept as the     *)
(* list of its edits; what git answers to `log -1 -L` is modelled the way git computes it:    *)
(* the line range is walked BACKWARDS through the commits, mapped through every edit of the   *)
(* file (renames followed), and the first commit whose edit overlaps the range is printed.    *)
(* The Reference replays the same history FORWARDS, stamping lines.  At the end the Machine's  *)
(* report is judged by the Reference (X09TodoGitRef) that judges the real code, and the       *)
(* history is emitted as a replay case.                                                       *)
(* Two switches name where the code as shipped deviates from the statement                    *)
(* (proposed_fixes/X09.md); the registered cfgs use the repaired setting, the `_asis` cfg     *)
(* the shipped one.                                                                           *)
EXTENDS X09TodoGitRef, Json

CONSTANTS MaxCommits, MaxLines,      \* commits per history, lines per file
          MaxNew,                    \* lines of a new file
          FilePoolName,              \* which file names (FilePool below)
          Kinds,                     \* kinds of the lines that are written
          Moves,                     \* TRUE: the move edit is explored
          RangeEnd,                  \* "open":  -L<line>:<file>         (as shipped: to the end of the file)
                                     \* "line":  -L<line>,<line>:<file>  (proposed_fixes/X09-1.patch)
          PrettyArg                  \* "quoted": --pretty="format:.."   (as shipped: the quotes reach git)
                                     \* "plain":  --pretty=format:..     (proposed_fixes/X09-1.patch)

VARIABLES history,     \* the commits so far (input)
          tree,        \* file -> Seq([kind, id]): the working tree after the last commit
          nextId,      \* ids of lines are unique
          phase,       \* "history" | "scan" | "blame" | "done"
          todos,       \* what AnalysisPath returned: Seq([file, line])
          ti,          \* loop index of BuildWithGitHistory
          todoList,    \* the details built so far
          logs         \* what RunGitGetLog returned, per todo: [file, line, commit, form]

vars == <<history, tree, nextId, phase, todos, ti, todoList, logs>>

FilePool ==
  CASE FilePoolName = "one" -> {"A.java"}
    [] FilePoolName = "two" -> {"A.java", "my dir/B C.java"}
RenamePool == {"src/R.java"}

\* who commits: fixed by the position in the history; the second commit carries the EARLIEST date
AuthorOf(k) == <<"Ann Lee", "Bob", "Ann Lee", "Cyd 3">>[k]
DateOf(k) == <<"2020-01-02", "2019-05-06", "2021-07-08", "2021-07-08">>[k]
SubjectOf(k) == "commit " \o ToString(k)

Init ==
  /\ history = <<>> /\ tree = <<>> /\ nextId = 1 /\ phase = "history"
  /\ todos = <<>> /\ ti = 1 /\ todoList = <<>> /\ logs = <<>>

-----------------------------------------------------------------------------
(* choosing the history: one commit, then its edits (at most one per file) *)

K == Len(history)
Touched(f) == \E i \in DOMAIN history[K].ops : history[K].ops[i].file = f \/ history[K].ops[i].to = f
Op(o, f, t, a, n, ls) == [op |-> o, file |-> f, to |-> t, at |-> a, n |-> n, lines |-> ls]
Plain(s) == [i \in DOMAIN s |-> [kind |-> s[i].kind, id |-> s[i].id]]

\* the working tree under an edit (content only: the Machine keeps no stamps)
Edit(t, op) ==
  CASE op.op = "add"     -> t @@ (op.file :> op.lines)
    [] op.op = "insert"  -> [t EXCEPT ![op.file] = SubSeq(@, 1, op.at - 1) \o op.lines \o SubSeq(@, op.at, Len(@))]
    [] op.op = "delete"  -> [t EXCEPT ![op.file] = SubSeq(@, 1, op.at - 1) \o SubSeq(@, op.at + op.n, Len(@))]
    [] op.op = "replace" -> [t EXCEPT ![op.file][op.at] = op.lines[1]]
    [] op.op = "move"    -> [t EXCEPT ![op.file] = LET rest == SubSeq(@, 1, op.at - 1) \o SubSeq(@, op.at + 1, Len(@))
                                                    IN  SubSeq(rest, 1, op.n - 1) \o <<@[op.at]>> \o SubSeq(rest, op.n, Len(rest))]
    [] op.op = "rename"  -> [f \in (DOMAIN t \ {op.file}) \cup {op.to} |-> IF f = op.to THEN t[op.file] ELSE t[f]]

NewCommit ==
  /\ phase = "history" /\ K < MaxCommits
  /\ (K > 0 => history[K].ops # <<>>)                \* no empty commits
  /\ history' = Append(history, [author |-> AuthorOf(K + 1), date |-> DateOf(K + 1), subject |-> SubjectOf(K + 1), ops |-> <<>>])
  /\ UNCHANGED <<tree, nextId, phase, todos, ti, todoList, logs>>

Record(op, used) ==
  /\ history' = [history EXCEPT ![K].ops = Append(@, op)]
  /\ tree' = Edit(tree, op)
  /\ nextId' = nextId + used
  /\ UNCHANGED <<phase, todos, ti, todoList, logs>>

\* new lines: ids nextId, nextId+1, ..
NewLines(ks) == [i \in DOMAIN ks |-> [kind |-> ks[i], id |-> nextId + i - 1]]
KindSeqs(n) == UNION {[1..m -> Kinds] : m \in 1..n}

AddFile ==
  /\ phase = "history" /\ K > 0
  /\ \E f \in FilePool \ DOMAIN tree : ~Touched(f) /\ \E ks \in KindSeqs(MaxNew) : Record(Op("add", f, "", 0, 0, NewLines(ks)), Len(ks))

InsertLine ==
  /\ phase = "history" /\ K > 0
  /\ \E f \in DOMAIN tree : ~Touched(f) /\ Len(tree[f]) < MaxLines
       /\ \E at \in 1..(Len(tree[f]) + 1), k \in Kinds : Record(Op("insert", f, "", at, 0, NewLines(<<k>>)), 1)

DeleteLine ==
  /\ phase = "history" /\ K > 0
  /\ \E f \in DOMAIN tree : ~Touched(f) /\ \E at \in DOMAIN tree[f] : Record(Op("delete", f, "", at, 1, <<>>), 0)

ReplaceLine ==
  /\ phase = "history" /\ K > 0
  /\ \E f \in DOMAIN tree : ~Touched(f) /\ \E at \in DOMAIN tree[f], k \in Kinds : Record(Op("replace", f, "", at, 0, NewLines(<<k>>)), 1)

MoveLine ==
  /\ phase = "history" /\ K > 0 /\ Moves
  /\ \E f \in DOMAIN tree : ~Touched(f)
       /\ \E at \in DOMAIN tree[f], to \in DOMAIN tree[f] : (to - at >= 2 \/ at - to >= 2) /\ Record(Op("move", f, "", at, to, <<>>), 0)

RenameFile ==
  /\ phase = "history" /\ K > 0
  /\ \E f \in DOMAIN tree, t \in RenamePool \ DOMAIN tree : ~Touched(f) /\ ~Touched(t) /\ Record(Op("rename", f, t, 0, 0, <<>>), 0)

-----------------------------------------------------------------------------
(* what git answers: `git log -1 -L a,b:file`, walking back from the last commit *)

\* one primitive edit undone: [touched, a, b] for the range [a, b] of the file AFTER the edit
UndoInsert(at, n, a, b) ==
  IF a <= at + n - 1 /\ b >= at THEN [touched |-> TRUE, a |-> a, b |-> b]
  ELSE IF a > at + n - 1 THEN [touched |-> FALSE, a |-> a - n, b |-> b - n]
  ELSE [touched |-> FALSE, a |-> a, b |-> b]
\* lines at..at+n-1 of the file BEFORE the edit were deleted: afterwards the cut lies directly before line `at`
UndoDelete(at, n, a, b) ==
  IF a < at /\ at <= b THEN [touched |-> TRUE, a |-> a, b |-> b]
  ELSE IF a >= at THEN [touched |-> FALSE, a |-> a + n, b |-> b + n]
  ELSE [touched |-> FALSE, a |-> a, b |-> b]

\* the edit of commit k that concerns file f (as named AFTER the commit), or "none"
OpOn(k, f) ==
  LET hits == {i \in DOMAIN history[k].ops : (history[k].ops[i].op = "rename" /\ history[k].ops[i].to = f)
                                              \/ (history[k].ops[i].op # "rename" /\ history[k].ops[i].file = f)}
  IN  IF hits = {} THEN Op("none", f, "", 0, 0, <<>>) ELSE history[k].ops[CHOOSE i \in hits : TRUE]

RECURSIVE Walk(_, _, _, _)
Walk(k, f, a, b) ==                   \* the commit printed by `git log -1 -L a,b:f` seen from commit k downwards
  IF k = 0 THEN 0
  ELSE LET op == OpOn(k, f)
       IN  CASE op.op = "none"    -> Walk(k - 1, f, a, b)
             [] op.op = "rename"  -> Walk(k - 1, op.file, a, b)
             [] op.op = "add"     -> k
             [] op.op = "replace" -> IF a <= op.at /\ op.at <= b THEN k ELSE Walk(k - 1, f, a, b)
             [] op.op = "insert"  -> LET u == UndoInsert(op.at, Len(op.lines), a, b) IN IF u.touched THEN k ELSE Walk(k - 1, f, u.a, u.b)
             [] op.op = "delete"  -> LET u == UndoDelete(op.at, op.n, a, b) IN IF u.touched THEN k ELSE Walk(k - 1, f, u.a, u.b)
             [] op.op = "move"    -> LET u1 == UndoInsert(op.n, 1, a, b)       \* the line was put back as line op.n ..
                                     IN  IF u1.touched THEN k
                                         ELSE LET u2 == UndoDelete(op.at, 1, u1.a, u1.b)   \* .. after it had been taken out
                                              IN  IF u2.touched THEN k ELSE Walk(k - 1, f, u2.a, u2.b)

GitLogL(line, f) ==
  IF RangeEnd = "open" THEN Walk(K, f, line, Len(tree[f])) ELSE Walk(K, f, line, line)

\* the anchored header expression on the line git printed
ParseHeader(k) ==
  IF PrettyArg = "quoted" THEN [matched |-> FALSE, author |-> "", date |-> ""]        \* the line starts with `"format:[`
  ELSE [matched |-> TRUE, author |-> history[k].author, date |-> history[k].date]

-----------------------------------------------------------------------------
(* the command *)

RECURSIVE SeqOf(_)
SeqOf(S) == IF S = {} THEN <<>> ELSE LET x == CHOOSE y \in S : TRUE IN <<x>> \o SeqOf(S \ {x})

\* AnalysisPath is C17's subject and is given: one todo per comment line of the scanned files (walk order: any)
Scan ==
  /\ phase = "history" /\ K > 0 /\ history[K].ops # <<>>
  /\ todos' = SeqOf({[file |-> fi[1], line |-> fi[2]] : fi \in TodoLines(tree, "")})
  /\ phase' = "blame" /\ ti' = 1 /\ todoList' = <<>> /\ logs' = <<>>
  /\ UNCHANGED <<history, tree, nextId>>

BlameTodo ==
  /\ phase = "blame" /\ ti <= Len(todos)
  /\ LET todo == todos[ti]
         k == GitLogL(todo.line, todo.file)
         h == ParseHeader(k)
         line == tree[todo.file][todo.line]
     IN  /\ logs' = Append(logs, [file |-> todo.file, line |-> todo.line, commit |-> k, form |-> PrettyArg])
         /\ todoList' = Append(todoList, [file |-> todo.file, line |-> todo.line, assignee |-> Asg(line), message |-> Msg(line),
                                          author |-> IF h.matched THEN h.author ELSE "", date |-> IF h.matched THEN h.date ELSE ""])
  /\ ti' = ti + 1
  /\ UNCHANGED <<history, tree, nextId, phase, todos>>

Finish ==
  /\ phase = "blame" /\ ti > Len(todos)
  /\ phase' = "done"
  /\ UNCHANGED <<history, tree, nextId, todos, ti, todoList, logs>>

Finished == phase = "done"
Done == Finished /\ UNCHANGED vars

Next == NewCommit \/ AddFile \/ InsertLine \/ DeleteLine \/ ReplaceLine \/ MoveLine \/ RenameFile \/ Scan \/ BlameTodo \/ Finish \/ Done
Spec == Init /\ [][Next]_vars

-----------------------------------------------------------------------------
(* Properties: what the Machine reports satisfies the Reference *)

Input == [via |-> "api", cwd |-> "", history |-> history]
\* hashes are git's business: the Machine names commits by index
Facts == [revs |-> [k \in DOMAIN history |-> "c" \o ToString(k)], blame |-> <<>>]
Stamped == Final(history)
Observed ==
  [panic |-> FALSE, wellformed |-> TRUE, hasAssignee |-> TRUE, details |-> todoList,
   logs |-> [i \in DOMAIN logs |-> [file |-> logs[i].file, line |-> logs[i].line,
                                    text |-> IF logs[i].commit = 0 THEN ""
                                             ELSE IF logs[i].form = "quoted" THEN QuotedForm(Input, Facts, logs[i].commit)
                                             ELSE PlainForm(Input, Facts, logs[i].commit)]]]

\* every reported entry carries the author and date of the commit that last touched its line, once per comment
X09_Details == Finished => DiffDetails(Input, Facts, Observed, Stamped) = {}
\* the line the shell adapter returns is the header of that commit
X09_LogLine == Finished => DiffLogs(Input, Facts, Observed, Stamped) = {}
\* the two formulations of "last touched" agree: git's backward walk over a single line = the stamp of the forward replay
X09_WalkIsStamp == Finished =>
  \A i \in DOMAIN todos : Walk(K, todos[i].file, todos[i].line, todos[i].line) = LastTouch(Stamped, <<todos[i].file, todos[i].line>>)
\* and the walk over the open-ended range = the tag predicate of the Reference (so the tag is exactly the shipped behaviour)
X09_OpenIsTag == Finished =>
  \A i \in DOMAIN todos : Walk(K, todos[i].file, todos[i].line, Len(tree[todos[i].file])) = OpenTouch(Stamped, <<todos[i].file, todos[i].line>>)
\* the forward replay of the Reference and the Machine's working tree hold the same text
X09_SameTree == Finished => /\ DOMAIN Stamped = DOMAIN tree
                            /\ \A f \in DOMAIN tree : Plain(Stamped[f]) = tree[f]

Emit == Finished => PrintT(<<"CASE", ToJson([input |-> Input])>>)

\* development aid (tlc -continue): print the violating histories
ShowDiff == Finished => LET d == DiffDetails(Input, Facts, Observed, Stamped) \cup DiffLogs(Input, Facts, Observed, Stamped)
                        IN  IF d = {} THEN TRUE ELSE PrintT(<<"NOTE", ToJson([history |-> history, diff |-> d])>>)
=============================================================================
