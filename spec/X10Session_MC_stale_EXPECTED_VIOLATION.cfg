\* Design-level staleness: the commands as they are do NOT guarantee these two (apis.json is reused by `coca api`
\* without -f after a new analysis; tidentify.json is reused by `coca tbs` for another tree). TLC shows the shortest
\* sessions. Not registered; the registered cfgs check what the statement of X10SessionRef promises.
SPECIFICATION Spec
CONSTANTS
  MaxSteps = 4
  Projects = {1, 2}
  Commands = {"analysis", "api", "tbs", "call"}
INVARIANTS X10_ReportsFollowLatestAnalysis X10_TestIdentifiersOfTheTree
