\* generation (and the same invariants): pairs of types over nested packages, fields and bare supertype names,
\* x 4 merge settings x 4 include filters; every explored input is emitted as a replay case
SPECIFICATION Spec
CONSTANTS
  Universe <- U_nested
  MinTypes = 2
  MaxTypes = 2
  Kinds = {"field", "bare"}
  MaxRel = 1
  Externals <- X_none
  Modes = {"none", "H", "P", "HP"}
  Filters <- F_nested
  FixKey = TRUE
  FixLeaving = TRUE
  FixRegister = TRUE
INVARIANTS C13_NodesExact C13_EdgesExact C13_QuotientExact C13_DotEdgesBetweenDisplayed C13_EachTypeOnce C13_Reference
           C13_MergeNoSelfLoop C13_MergeBetweenNodes Emit
