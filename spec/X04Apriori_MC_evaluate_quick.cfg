\* evaluate's use, quick: <= 3 long-parameter methods (4 or 5 of 5 names each), support/confidence 0.8, the last record of >= 4 items wins; the candidate levels run up to 5
SPECIFICATION Spec
CONSTANTS
  ItemPool = "params"
  MaxTx = 3
  MinTxLen = 4
  MaxTxLen = 5
  Ascending = TRUE
  Mode = "evaluate"
  OptPool = "evaluate"
  IndexForm = "occurrences"
  Sentinel = "inband"
INVARIANTS X04_ResultExactOrTagged X04_CandidatesComplete X04_NoFrequentSetLost X04_CandidateShape X04_IndexTable Emit
