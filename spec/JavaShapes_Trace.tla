-------------------------- MODULE JavaShapes_Trace --------------------------
EXTENDS JavaShapesRef
VARIABLE l
Trace == ndJsonDeserialize("trace.ndjson")
TInit == l = 1
Step == /\ l <= Len(Trace)
        /\ LET d == Diff(Trace[l])
           IN  IF d = {} THEN TRUE ELSE PrintT(<<"DIFF", l, ToJson(d)>>)
        /\ l' = l + 1
TSpec == TInit /\ [][Step]_l
Accepted == TLCGet("stats").diameter - 1 = Len(Trace)
=============================================================================
