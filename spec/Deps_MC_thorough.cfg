\* thorough, front-ends: every pom.xml / build.gradle with <= 3 entries over all 8 <dependency> shapes and
\* all 10 gradle notations x variants (24 statements), 5 surroundings each (all section / block kinds)
SPECIFICATION Spec
CONSTANTS
  Repaired = TRUE
  Kinds = {"pom", "gradle"}
  MaxEntries = 3
  Groups = {"org.a"}
  PomShapes = {1, 2, 3, 4, 5, 6, 7, 8}
  Notations = {"sq", "dq", "psq", "pdq", "project", "pproject", "filetree", "files", "map", "platform"}
  Variants = {"plain", "versioned", "interp", "closure", "commented"}
  Confs = {"implementation"}
  SurroundLevel = 2
  SrcMax = 0
  ImpMax = 2
  Units = {"class"}
  ExtraImports = {}
INVARIANTS C19_NoPanic C19_ExtractedExact C19_PrefixExact C19_OtherNotationsSkipped C19_UnusedExact Emit
