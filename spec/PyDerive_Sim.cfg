SPECIFICATION Spec
CONSTANTS MaxDepth = 14
          Budgets = {60, 120, 240}
          NLex = 12
INVARIANTS C20_SentenceOfGrammar C20_AllowanceCoversMinimum C20_Bounded C20_BlocksNest Emit
