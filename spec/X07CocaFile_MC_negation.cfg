\* every .gitignore of <= 3 lines over six lines with negations (`!gen` after `gen`, `!B.java` below an ignored directory,
\* a rooted negation, a blank line): the two readings of a negation below an ignored directory (Free_X07_NegationBelowIgnoredDir)
SPECIFICATION Spec
CONSTANTS
  Universe <- UniverseNeg
  Walkers = {"java"}
  Roots <- RootsPlain
  Patterns <- PatternsNeg
  MaxLines = 3
  PathBase = "relative"
  TestDataTest = "directory"
  DirTest = "isdir"
INVARIANTS X07_Exact X07_Slice Emit
