\* the code as shipped (no repair): the Machine violates X09_Details (the header is never parsed: Author and Date stay empty)
\* and X09_LogLine (the quoted line; and a later commit that changes a line BELOW the comment is printed instead of the one
\* that wrote the comment).  Not part of a check; run with `tlc -continue` and INVARIANT ShowDiff to list every violating history.
SPECIFICATION Spec
CONSTANTS
  MaxCommits = 3
  MaxLines = 3
  MaxNew = 2
  FilePoolName = "one"
  Kinds = {"code", "todo"}
  Moves = FALSE
  RangeEnd = "open"
  PrettyArg = "quoted"
INVARIANTS X09_Details X09_LogLine X09_WalkIsStamp X09_OpenIsTag X09_SameTree
