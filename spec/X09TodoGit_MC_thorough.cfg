\* thorough: every history of <= 4 commits on one file of <= 3 lines (code or TODO lines; a new file has <= 2 lines)
SPECIFICATION Spec
CONSTANTS
  MaxCommits = 4
  MaxLines = 3
  MaxNew = 2
  FilePoolName = "one"
  Kinds = {"code", "todo"}
  Moves = FALSE
  RangeEnd = "line"
  PrettyArg = "plain"
INVARIANTS X09_Details X09_LogLine X09_WalkIsStamp X09_OpenIsTag X09_SameTree Emit
