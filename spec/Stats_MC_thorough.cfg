\* thorough, eval part: one method; every ordered arrangement of <= 4 tokens out of the seven modifiers + three annotations
\* (5861 modifier lists, incl. all 1100 arrangements of <= 4 of the seven keywords) x return sequences of length <= 3 over {null, other, cmp}
SPECIFICATION Spec
CONSTANTS
  Part = "eval"
  Repaired = TRUE
  MaxCalls = 0
  Targets = 3
  WithOverload = FALSE
  PreToks = {"public", "private", "protected", "static", "final", "abstract", "synchronized", "@Nullable", "@CheckForNull", "@Override"}
  MaxPre = 4
  RetKinds = {"null", "other", "cmp"}
  MaxRets = 3
  MaxMembers = 1
  WithCtor = FALSE
  MaxPieces = 1
  MaxNames = 1
INVARIANTS C18_CountsConserved C18_CountReference C18_StaticIsPermutationInvariant C18_NullableExactOnce C18_SummaryNumbers C18_NoStaleMethodState C18_ConceptSum Emit
