\* thorough: <= 3 APIs (ties of Size, three arrangements under --sort)
SPECIFICATION Spec
CONSTANTS
  Cmd = "api"
  ModelPool = "shop"
  UriPool = "ab"
  RemovePool = "shop"
  MaxApis = 3
  RemoveForm = "anywhere"
  CsvForm = "joined"
INVARIANTS X05_OutputExactOrTagged X05_FilterKeepsOrder X05_SortIsAPermutation X05_OneRowPerApi Emit
