\* thorough, "structure" (Go): <= 1 of 3 imports and <= 4 declarations over 3 struct types, an interface, value AND pointer
\* methods M, N on each type, a function - every order.
SPECIFICATION Spec
CONSTANTS
  Langs = {"go"}
  Detail = "structure"
  MaxDecls = 4
  MaxImports = 1
  Wide = TRUE
  SharedCell = FALSE
  FirstNameOnly = FALSE
  GlueImportAs = FALSE
INVARIANTS C20_NoCrash C20_GoDeclsExact C20_PyDeclsExact C20_GoMapOwnNames C20_PyNoStaleClass Emit
