\* thorough: 108 option settings (support 1/4..1, confidence 0, 1/2, 1, lift 0, 1, 3/2, maxLength 0, 1, 2) over every list of <= 2 transactions of <= 2 items
SPECIFICATION Spec
CONSTANTS
  ItemPool = "abc"
  MaxTx = 2
  MinTxLen = 0
  MaxTxLen = 2
  Ascending = FALSE
  Mode = "miner"
  OptPool = "wide"
  IndexForm = "occurrences"
  Sentinel = "inband"
INVARIANTS X04_ResultExactOrTagged X04_CandidatesComplete X04_NoFrequentSetLost X04_CandidateShape X04_IndexTable Emit
