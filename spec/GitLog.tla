------------------------------ MODULE GitLog ------------------------------
(* Machine of the commit-log pipeline (C14):                                          *)
(*   a repository (set of live paths) evolving by commits chosen incrementally,       *)
(*   the lines `git log --pretty=format:[%h] %aN %ad %s --date=short --numstat        *)
(*   --reverse --summary` prints for each commit (as measured with real git: header,  *)
(*   numstat lines, summary lines, and a blank line only after a commit that has a    *)
(*   diff), and git.ParseLog consuming them one line per action on its package-level  *)
(*   registers currentCommit, currentFileChangeMap, currentFileChanges, commits.      *)
(* The history is the witness (hidden by VIEW) emitted for replay with real git.      *)
EXTENDS GitRef, Json

CONSTANTS MaxCommits, MaxOps,
          ModeDigits    \* "any": the summary expression accepts `mode` followed by any six digits (repaired);
                        \* "100ddd": as shipped, only regular-file modes - a symbolic link (120000) is not recognised

Paths == {"a.txt", "d/b.txt", "my f.txt"}
\* a.txt is created executable (git prints ` create mode 100755 a.txt`, the others 100644); `chmod` flips that bit
\* (` mode change 100755 => 100644 a.txt`: one numstat line 0 0 and a summary line that names no pending path)
ExecPaths == {"a.txt"}
\* ln is a symbolic link (` create mode 120000 ln`, numstat 1 0: its content is the target path)
LinkPaths == {"ln"}
ModeClass(p) == IF p \in LinkPaths THEN "link" ELSE "file"
RenameTargets == {"d/c.txt", "r.txt"}          \* d/b.txt -> d/c.txt prints as d/{b.txt => c.txt}; -> r.txt prints as d/b.txt => r.txt
Authors == {"Ann", "B C"}
Subjects == {"plain words", "fix [abc1234] 2020-01-02 by Ann: x", "feat(x): add"}
None == [rev |-> ""]

VARIABLES
  live,                                   \* repository: set of live paths
  n,                                      \* commits made so far
  lines, pos,                             \* lines printed for the current commit, next line to parse
  cur, fmap, forder, fchanges, commits,   \* ParseLog registers (forder = currentFileChangeOrder; commits = flushed, not yet compared)
  infos,                                  \* BuildCommitMessageMap: file name -> [revs, authors, first] (the summaries' fold, C15)
  expected,                               \* Reference: the entry the current block must produce (or None)
  hist                                    \* witness history (hidden by VIEW)

vars == <<live, n, lines, pos, cur, fmap, forder, fchanges, commits, infos, expected, hist>>
View == <<live, n, lines, pos, cur, fmap, forder, fchanges, commits, infos, expected>>

Init == /\ live = {} /\ n = 0 /\ lines = <<>> /\ pos = 1 /\ cur = None /\ fmap = <<>> /\ forder = <<>> /\ fchanges = <<>>
        /\ commits = <<>> /\ infos = <<>> /\ expected = None /\ hist = <<>>

RevOf(i) == <<"aaaaaa1", "bbbbbb2", "cccccc3", "dddddd4">>[i]

\* the changes git reports for a list of ops: [file text, added, deleted, mode, summary kind]
Notation(op) == IF op.to = "d/c.txt" THEN "d/{b.txt => c.txt}" ELSE op.path \o " => " \o op.to
ChangeOf(op) ==
  CASE op.op = "add"    -> [file |-> op.path, added |-> op.add, deleted |-> 0, mode |-> "create", sum |-> "create"]
    [] op.op = "addlink" -> [file |-> op.path, added |-> 1, deleted |-> 0, mode |-> "create", sum |-> "create"]
    [] op.op = "modify" -> [file |-> op.path, added |-> op.add, deleted |-> op.del, mode |-> "", sum |-> ""]
    [] op.op = "delete" -> [file |-> op.path, added |-> 0, deleted |-> op.del, mode |-> "delete", sum |-> "delete"]
    [] op.op = "rename" -> [file |-> Notation(op), added |-> 0, deleted |-> 0, mode |-> "", sum |-> "rename"]
    [] op.op = "chmod"  -> [file |-> op.path, added |-> 0, deleted |-> 0, mode |-> "", sum |-> "modechange"]

LinesOf(c, cs) ==
  <<[k |-> "header", rev |-> c.rev, author |-> c.author, date |-> c.date, subject |-> c.subject]>> \o
  [i \in DOMAIN cs |-> [k |-> "numstat", file |-> cs[i].file, added |-> cs[i].added, deleted |-> cs[i].deleted]] \o
  (LET ss == SelectSeq(cs, LAMBDA x : x.sum # "") IN [i \in DOMAIN ss |-> [k |-> "summary", mode |-> ss[i].sum, file |-> ss[i].file, cls |-> ModeClass(ss[i].file)]]) \o
  (IF cs = <<>> THEN <<>> ELSE <<[k |-> "blank"]>>)

Op(o, p, t, a, d) == [op |-> o, path |-> p, to |-> t, add |-> a, del |-> d, notation |-> "", exec |-> (o = "add" /\ p \in ExecPaths)]
\* ops applicable to the repository state (at most one op per path in a commit)
OneOp(lv) ==
  {Op("add", p, "", a, 0) : p \in Paths \ lv, a \in {1, 2}} \cup
  {Op("addlink", p, "", 1, 0) : p \in LinkPaths \ lv} \cup
  {Op("modify", p, "", 1, d) : p \in lv \ LinkPaths, d \in {0, 1}} \cup
  {Op("delete", p, "", 0, 1) : p \in lv} \cup
  {Op("chmod", p, "", 0, 0) : p \in lv \cap ExecPaths} \cup
  {Op("rename", "d/b.txt", t, 0, 0) : t \in {x \in RenameTargets : "d/b.txt" \in lv /\ x \notin lv}}
Touches(op) == {op.path} \cup (IF op.to = "" THEN {} ELSE {op.to})
OpLists(lv) ==
  {<<>>} \cup {<<o>> : o \in OneOp(lv)} \cup
  (IF MaxOps < 2 THEN {} ELSE {p \in {<<o1, o2>> : o1 \in OneOp(lv), o2 \in OneOp(lv)} : Touches(p[1]) \cap Touches(p[2]) = {}})
Apply(lv, ops) ==
  (lv \ {ops[i].path : i \in {j \in DOMAIN ops : ops[j].op \in {"delete", "rename"}}})
    \cup {ops[i].path : i \in {j \in DOMAIN ops : ops[j].op \in {"add", "addlink"}}}
    \cup {ops[i].to : i \in {j \in DOMAIN ops : ops[j].op = "rename"}}

\* git numstat lists paths in sorted order; the order is irrelevant to the property (changes are compared as a set)
Commit ==
  /\ lines = <<>> /\ n < MaxCommits
  \* the author date of a commit is not tied to its place in the log (a rebased or cherry-picked commit keeps the date
  \* it was written on): every commit after the first carries its own day or the day before the first commit
  /\ \E a \in Authors, s \in Subjects, ops \in OpLists(live), early \in (IF n = 0 THEN {FALSE} ELSE BOOLEAN) :
       LET c  == [rev |-> RevOf(n + 1), author |-> a, date |-> IF early THEN "2019-12-31" ELSE "2020-01-0" \o ToString(n + 1), subject |-> s]
           cs == [i \in DOMAIN ops |-> ChangeOf(ops[i])]
       IN  /\ lines' = LinesOf(c, cs)
           /\ expected' = IF cs = <<>> THEN None
                          ELSE [rev |-> c.rev, author |-> a, date |-> c.date, subject |-> s, merge |-> FALSE,
                                changes |-> [i \in DOMAIN cs |-> [file |-> cs[i].file, added |-> cs[i].added, deleted |-> cs[i].deleted, mode |-> cs[i].mode]]]
           /\ hist' = Append(hist, [author |-> a, date |-> c.date, subject |-> s, cctype |-> IF s = "feat(x): add" THEN "feat" ELSE "",
                                    merge |-> FALSE, ops |-> ops])
           /\ live' = Apply(live, ops)
  /\ pos' = 1 /\ n' = n + 1
  /\ UNCHANGED <<cur, fmap, forder, fchanges, commits, infos>>

Line == lines[pos]

\* ParseLog, header line: anchored header expression (fix 13b4286) - the pending commit is simply overwritten
ParseHeader ==
  /\ pos <= Len(lines) /\ Line.k = "header"
  /\ cur' = [rev |-> Line.rev, author |-> Line.author, date |-> Line.date, msg |-> Line.subject]
  /\ pos' = pos + 1
  /\ UNCHANGED <<live, n, lines, fmap, forder, fchanges, commits, infos, expected, hist>>

\* ParseLog, numstat line: currentFileChangeMap[file] = change
ParseNumstat ==
  /\ pos <= Len(lines) /\ Line.k = "numstat"
  /\ fmap' = [f \in DOMAIN fmap \cup {Line.file} |->
                IF f = Line.file THEN [file |-> f, added |-> Line.added, deleted |-> Line.deleted, mode |-> ""] ELSE fmap[f]]
  /\ forder' = IF Line.file \in DOMAIN fmap THEN forder ELSE Append(forder, Line.file)
  /\ pos' = pos + 1
  /\ UNCHANGED <<live, n, lines, cur, fchanges, commits, infos, expected, hist>>

\* ParseLog, summary line -> buildChangeMode: ` create mode 100644 path`. The expression is
\*   \s(\w{1,6})\s(mode <six digits>)?\s?(.*) ; when the optional mode group does not match, the text `mode 120000 path`
\* is taken for the path. Sets Mode on the pending change of that path; a `delete` line for an unknown path appends
\* a change; rename/mode-change lines name no pending path
Recognised(cls) == ModeDigits = "any" \/ cls = "file"
NamedBy(ln) == IF ln.mode \in {"create", "delete"} /\ ~Recognised(ln.cls) THEN "mode 120000 " \o ln.file ELSE ln.file
ParseSummary ==
  /\ pos <= Len(lines) /\ Line.k = "summary"
  /\ IF Line.mode \in {"create", "delete"} /\ NamedBy(Line) \in DOMAIN fmap
     THEN /\ fmap' = [fmap EXCEPT ![NamedBy(Line)].mode = Line.mode] /\ UNCHANGED fchanges
     ELSE IF Line.mode = "delete"
          THEN /\ fchanges' = Append(fchanges, [file |-> NamedBy(Line), added |-> 0, deleted |-> 0, mode |-> "delete"]) /\ UNCHANGED fmap
          ELSE UNCHANGED <<fmap, fchanges>>
  /\ pos' = pos + 1
  /\ UNCHANGED <<live, n, lines, cur, forder, commits, infos, expected, hist>>

\* ParseLog, blank line: flush the pending commit with its changes in the order git printed them (fix 49660c4)
ParseBlank ==
  /\ pos <= Len(lines) /\ Line.k = "blank"
  /\ IF cur.rev # ""
     THEN /\ commits' = Append(commits, [rev |-> cur.rev, author |-> cur.author, date |-> cur.date, msg |-> cur.msg,
                                          changes |-> fchanges \o [i \in DOMAIN forder |-> fmap[forder[i]]]])
          /\ cur' = None /\ fmap' = <<>> /\ forder' = <<>> /\ fchanges' = <<>>
     ELSE UNCHANGED <<cur, fmap, forder, fchanges, commits>>
  /\ pos' = pos + 1
  /\ UNCHANGED <<live, n, lines, infos, expected, hist>>

\* BuildCommitMessageMap for one change of a commit: renames move the entry (switchMapFile), then the file is
\* created or touched, and a change in delete mode drops it. The rename notation is decoded as the code's
\* expressions do (complexMoveReg `dir/{a => b}/x`, basicMvReg `a => b`); the Machine knows the decoding of the
\* two notations it prints.
Decode(file) == CASE file = "d/{b.txt => c.txt}" -> [old |-> "d/b.txt", new |-> "d/c.txt"]
                  [] file = "d/b.txt => r.txt"   -> [old |-> "d/b.txt", new |-> "r.txt"]
                  [] OTHER                       -> [old |-> file, new |-> file]
FoldChange(inf, c, ch) ==
  LET d == Decode(ch.file)
      moved == IF d.old # d.new /\ d.old \in DOMAIN inf
               THEN [f \in (DOMAIN inf \ {d.old}) \cup {d.new} |-> IF f = d.new THEN inf[d.old] ELSE inf[f]]
               ELSE inf
      name == d.new
      touched == IF name \in DOMAIN moved
                 THEN [moved EXCEPT ![name] = [revs |-> @.revs \cup {c.rev}, authors |-> @.authors \cup {c.author}, first |-> @.first]]
                 ELSE [f \in DOMAIN moved \cup {name} |-> IF f = name THEN [revs |-> {c.rev}, authors |-> {c.author}, first |-> c.date] ELSE moved[f]]
  IN  IF ch.mode = "delete" THEN [f \in DOMAIN touched \ {name} |-> touched[f]] ELSE touched
RECURSIVE FoldCommit(_, _, _)
FoldCommit(inf, c, k) == IF k > Len(c.changes) THEN inf ELSE FoldCommit(FoldChange(inf, c, c.changes[k]), c, k + 1)

\* after a block has been parsed the flushed entry is compared with the Reference, folded into the summaries'
\* table, and dropped from the state
Compare ==
  /\ pos > Len(lines) /\ lines # <<>>
  /\ infos' = IF commits = <<>> THEN infos ELSE FoldCommit(infos, commits[1], 1)
  /\ lines' = <<>> /\ pos' = 1 /\ commits' = <<>> /\ expected' = None
  /\ UNCHANGED <<live, n, cur, fmap, forder, fchanges, hist>>

Finished == n = MaxCommits /\ lines = <<>>
Done == Finished /\ UNCHANGED vars
Next == Commit \/ ParseHeader \/ ParseNumstat \/ ParseSummary \/ ParseBlank \/ Compare \/ Done
Spec == Init /\ [][Next]_vars

-----------------------------------------------------------------------------
\* when a block is fully parsed: exactly the expected entry was flushed (none for a commit without changes),
\* judged by the same DiffCommit that judges the real parser
C14_BlockExact ==
  (pos > Len(lines) /\ lines # <<>>) =>
     IF expected = None THEN commits = <<>>
     ELSE Len(commits) = 1 /\ DiffCommit(expected, commits[1], commits, 1) = {}

\* nothing parsed for one commit is left in the registers for the next
C14_NoChangeMigrates == (pos > Len(lines) /\ lines # <<>> /\ expected # None) => (fmap = <<>> /\ forder = <<>> /\ fchanges = <<>> /\ cur = None)

\* C15 (team summary / code age part): when the log has been consumed the summaries' table holds exactly the files
\* that still exist, each with the commits and authors that touched it through its renames and its first-commit
\* date - compared with GitRef!Final over the history (a re-created path may count from either creation)
C15_TableMatchesHistory ==
  Finished =>
    LET fin == Final([history |-> hist])
        judged == {p \in DOMAIN fin.live : p \notin fin.odd}
    IN  /\ \A p \in judged : /\ p \in DOMAIN infos
                             /\ \/ /\ Cardinality(infos[p].revs) = Cardinality(fin.live[p].revs)
                                   /\ infos[p].authors = fin.live[p].authors
                                   /\ infos[p].first = fin.live[p].first
                                \/ /\ Cardinality(infos[p].revs) = Cardinality(fin.live[p].arevs)
                                   /\ infos[p].authors = fin.live[p].aauthors
                                   /\ infos[p].first = fin.live[p].afirst
        /\ \A p \in DOMAIN infos : p \in DOMAIN fin.live \/ p \in fin.odd

Emit == (pos > Len(lines) /\ lines # <<>>) => PrintT(<<"CASE", ToJson([history |-> hist])>>)
=============================================================================
