\* by hand only: concept part without the known-finding excuse: TLC exhibits the glued-head shape
SPECIFICATION Spec
CONSTANTS
  Part = "concept"
  Repaired = TRUE
  MaxCalls = 0
  Targets = 3
  WithOverload = FALSE
  PreToks = {"public", "private", "protected", "static", "final", "abstract", "synchronized"}
  MaxPre = 0
  RetKinds = {"null"}
  MaxRets = 0
  MaxMembers = 1
  WithCtor = FALSE
  MaxPieces = 3
  MaxNames = 1
INVARIANTS C18_CountsConserved C18_CountReference C18_StaticIsPermutationInvariant C18_NullableExactOnce C18_SummaryNumbers C18_NoStaleMethodState C18_ConceptSumStrict Emit
