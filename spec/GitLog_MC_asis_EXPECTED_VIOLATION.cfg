\* The summary expression as shipped (mode 100ddd): TLC finds, from the Machine alone, that a created symbolic link
\* keeps an empty Mode (and a deleted one yields a bogus change named `mode 120000 ln`). Repaired in /repo; not registered.
SPECIFICATION Spec
CONSTANTS
  MaxCommits = 2
  MaxOps = 1
  ModeDigits = "100ddd"
VIEW View
INVARIANTS C14_BlockExact C14_NoChangeMigrates
