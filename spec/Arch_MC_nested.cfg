\* thorough, merge / DOT-centred: 2 or 3 types out of {a.A, a.b.B, ab.A, b.a.B, bb.Main, A (unnamed package)}: nested
\* packages (interior trie nodes), top-level collisions under merge-package, Main as a relation target, x 4 merge
\* settings x 4 include filters, every order of MergeHeaderFile's relation loop
SPECIFICATION Spec
CONSTANTS
  Universe <- U_nested
  MinTypes = 2
  MaxTypes = 3
  Kinds = {"field"}
  MaxRel = 1
  Externals <- X_std
  Modes = {"none", "H", "P", "HP"}
  Filters <- F_nested
  FixKey = TRUE
  FixLeaving = TRUE
  FixRegister = TRUE
INVARIANTS C13_NodesExact C13_EdgesExact C13_QuotientExact C13_DotEdgesBetweenDisplayed C13_EachTypeOnce C13_Reference
           C13_MergeNoSelfLoop C13_MergeBetweenNodes
