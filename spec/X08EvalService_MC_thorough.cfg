\* thorough, lifecycle: one class (six names that are / are not services) x <= 3 functions over nine names (shared lower-case
\* word, digits, an upper-case run, a capitalised word, a stop word, an underscore) or constructors
SPECIFICATION Spec
CONSTANTS
  MaxCalls = 1
  MaxClasses = 1
  MaxMethods = 3
  ClassPoolName = "names"
  NamePool = {"doSave", "doUpdate", "do2", "getA", "getB", "HTTPGet", "HTTPPut", "DoIt", "_a"}
  RetPool = {"void"}
  ParamPoolName = "none"
  Ctors = TRUE
  LifecycleStore = "merge"
  CtorIsMethod = FALSE
INVARIANTS X08_Lifecycle X08_ReturnTypes X08_Related X08_SplitAgrees X08_Registers Emit
