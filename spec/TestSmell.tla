----------------------------- MODULE TestSmell -----------------------------
(* Implementation-shaped Machine of `coca tbs` (cmd/tbs.go):                          *)
(*   cocafile.GetJavaTestFiles      - filepath.Walk over the tree, JavaTestFileFilter  *)
(*   JavaFullApp.AnalysisFiles      - one parse per selected path; what the full       *)
(*                                    listener keeps of a method: its annotations      *)
(*                                    (BuildAnnotationForMethod) and its calls         *)
(*   tbs.TbsApp.AnalysisPath        - IsJunitTest gate, updateMethodCallsForSelfCall,  *)
(*                                    the annotation loop (checkIgnoreTest,            *)
(*                                    checkEmptyTest), the call loop threading         *)
(*                                    `hasAssert` with the `index == last` check,      *)
(*                                    `methodCallMap`, checkDuplicateAssertTest        *)
(* One action per loop body; variables named after the real registers.                 *)
(* The input (one class: a test method `t`, optionally a helper `helper`) is chosen    *)
(* incrementally: annotations / path / helper in Init, the body statement by statement *)
(* (AddStmt), so every body of length <= MaxBody over the alphabet is explored.        *)
(* The Machine is judged by the same Reference (TestSmellRef!Diff) that judges the     *)
(* real code in TestSmell_Trace.                                                       *)
(* Repaired = TRUE models the tree after the three proposed repairs (C11-1: the filter *)
(* requires .java; C11-2: every annotation of a method is captured; C11-3: a helper    *)
(* called as `this.helper()` is inlined too); FALSE models the unrepaired code         *)
(* (TestSmell_MC_unrepaired.cfg shows the Machine reproducing the defects the          *)
(* conformance run found).                                                             *)
EXTENDS TestSmellRef, Json

CONSTANTS MaxBody,       \* statements in the test method
          Alphabet,      \* subset of the statement symbols (see Sym)
          AnnoKinds,     \* subset of {"T", "Targ", "I", "TI", "IT", "none", "Before"}
          HelperKinds,   \* subset of {"none", "empty", "assert", "print", "plain", "eq"}
          PathKinds,     \* subset of {"flatTest", "flatTests", "flatProd", "flatSub", "mavenTest", "mavenOther", "mavenMain", "mavenRootOnly"}
          Repaired       \* BOOLEAN

VARIABLES path, annos, hkind, body,            \* the abstract input
          phase,                               \* build | walk | parse | methods | annos | calls | dup | done
          entries, files,                      \* Walk: paths still to visit, selected paths
          panic,
          captured,                            \* per method: the annotations the listener kept
          todo, cur,                           \* methods not yet visited (map order is free), current method
          currentMethodCalls, ai, index, hasAssert, methodCallMap,
          results

vars == <<path, annos, hkind, body, phase, entries, files, panic, captured, todo, cur,
          currentMethodCalls, ai, index, hasAssert, methodCallMap, results>>

-----------------------------------------------------------------------------
(* the space of abstract inputs *)

L(s) == [lit |-> s, call |-> <<>>]
N(c) == [lit |-> "", call |-> <<c>>]
C(recv, f, args) == [recv |-> recv, f |-> f, new |-> FALSE, args |-> args]
S(c) == [noise |-> FALSE, call |-> c, wrap |-> "", join |-> FALSE]

Sym(a) ==
  CASE a = "print"      -> S(C("System.out", "println", <<L("1")>>))
    [] a = "printf"     -> S(C("System.out", "printf", <<L("2"), L("2")>>))      \* a print that is also a two-equal-argument call
    [] a = "sleep"      -> S(C("Thread", "sleep", <<L("5")>>))
    [] a = "assertEq"   -> S(C("", "assertEquals", <<L("1"), L("n")>>))           \* statically imported
    [] a = "assertTrue" -> S(C("", "assertTrue", <<L("ok")>>))                    \* not imported
    [] a = "eqAssert"   -> S(C("", "assertEquals", <<L("true"), L("true")>>))
    [] a = "eqPlain"    -> S(C("calc", "same", <<L("a"), L("a")>>))
    [] a = "helper"     -> S(C("", "helper", <<>>))
    [] a = "thisHelper" -> S(C("this", "helper", <<>>))
    [] a = "plain"      -> S(C("calc", "add", <<L("1"), L("2")>>))
    [] a = "nested"     -> S(C("", "assertEquals", <<N(C("calc", "get", <<>>)), L("3")>>))
    [] a = "new"        -> S([recv |-> "", f |-> "Calc", new |-> TRUE, args |-> <<>>])
    [] a = "noise"      -> [noise |-> TRUE, call |-> [recv |-> "", f |-> "", new |-> FALSE, args |-> <<>>], wrap |-> "", join |-> FALSE]

A(n) == [name |-> n, arg |-> ""]
AnnosOf(k) ==
  CASE k = "T" -> <<A("Test")>>
    [] k = "Targ" -> <<[name |-> "Test", arg |-> "timeout = 100"]>>
    [] k = "I" -> <<A("Ignore")>>
    [] k = "TI" -> <<A("Test"), A("Ignore")>>
    [] k = "IT" -> <<A("Ignore"), A("Test")>>
    [] k = "none" -> <<>>
    [] k = "Before" -> <<A("Before")>>

HelperBody(k) ==
  CASE k = "none" -> <<>>
    [] k = "empty" -> <<>>
    [] k = "assert" -> <<Sym("plain"), Sym("assertTrue")>>
    [] k = "print" -> <<Sym("print")>>
    [] k = "plain" -> <<Sym("plain")>>
    [] k = "eq" -> <<Sym("eqPlain"), Sym("sleep")>>

PathOf(k) ==
  CASE k = "flatTest"      -> [dirs |-> <<>>, cls |-> "CalcTest"]
    [] k = "flatTests"     -> [dirs |-> <<"sub">>, cls |-> "CalcTests"]
    [] k = "flatProd"      -> [dirs |-> <<>>, cls |-> "Contest"]
    [] k = "flatSub"       -> [dirs |-> <<"src", "test">>, cls |-> "Calc"]
    [] k = "mavenTest"     -> [dirs |-> <<"src", "test", "java", "p">>, cls |-> "CalcTest"]
    [] k = "mavenOther"    -> [dirs |-> <<"src", "test", "java", "p">>, cls |-> "Fixtures"]
    [] k = "mavenRootOnly" -> [dirs |-> <<"src", "test", "java">>, cls |-> "Fixtures"]
    [] k = "mavenMain"     -> [dirs |-> <<"src", "main", "java", "p">>, cls |-> "CalcTester"]

Cls == PathOf(path).cls
\* the part of the input file that decides whether it is a test file and how it is named
FileId == [dirs |-> PathOf(path).dirs, name |-> Cls \o ".java"]
Methods ==
  <<[name |-> "t", annos |-> AnnosOf(annos), body |-> body]>> \o
  (IF hkind = "none" THEN <<>> ELSE <<[name |-> "helper", annos |-> <<>>, body |-> HelperBody(hkind)]>>)

InputFile == [dirs |-> PathOf(path).dirs, name |-> Cls \o ".java", pkg |-> "p", cls |-> Cls,
              imports |-> <<"org.junit.Test", "org.junit.Ignore", "static org.junit.Assert.assertEquals">>,
              classAnnos |-> <<>>, fields |-> <<>>, methods |-> Methods]
InputRec == [layout |-> IF Len(InputFile.dirs) >= 3 THEN "maven" ELSE "flat", via |-> "api", style |-> 0,
             files |-> <<InputFile>>, extras |-> <<>>]

\* the Machine's own layout of the text (the real renderer reports its layout in `facts`)
FirstLine(j) == IF j = 1 THEN 5 ELSE 40
MFacts(j) == [first |-> FirstLine(j), last |-> FirstLine(j) + Len(Methods[j].body) + 1,
              lines |-> [i \in DOMAIN Methods[j].body |-> FirstLine(j) + i]]
MachineFacts == [files |-> <<[path |-> Path(InputFile), methods |-> [j \in DOMAIN Methods |-> MFacts(j)]]>>]

-----------------------------------------------------------------------------
(* the code's view of one recorded call (core_domain.CodeCall) *)

StaticImported(f) == f = "assertEquals"
NodeName(c) == IF c.new THEN c.f
               ELSE IF c.recv # "" THEN c.recv
               ELSE IF StaticImported(c.f) THEN "" ELSE Cls       \* HandleEmptyFullType
FunctionName(c) == IF c.new THEN "" ELSE c.f
FullName(c) == NodeName(c) \o "." \o FunctionName(c)            \* BuildFullMethodName (one package)
Parameters(c) == IF c.new THEN <<>> ELSE c.args                  \* buildCreatorCall records none
IsSystemOutput(c) == NodeName(c) = "System.out" /\ FunctionName(c) \in {"println", "printf", "print"}
IsThreadSleep(c) == FunctionName(c) = "sleep" /\ NodeName(c) = "Thread"
\* HasAssertion: lower-cased name has a prefix in ASSERTION_LIST (the alphabet's names are lower case at the front)
HasAssertion(c) == \E p \in {"assert", "should", "check", "maynotbe", "is", "spec", "verify"} : HasPrefix(FunctionName(c), p)

\* FunctionCalls of method j as the listener records them: outermost first, with the line
Recorded(j) == BodyCalls(Methods[j].body, MFacts(j).lines, 1)
StartLine(j) == FirstLine(j)

-----------------------------------------------------------------------------
Init ==
  /\ path \in PathKinds /\ annos \in AnnoKinds /\ hkind \in HelperKinds
  /\ body = <<>> /\ phase = "build"
  /\ entries = <<>> /\ files = <<>> /\ panic = FALSE /\ captured = <<>> /\ todo = {} /\ cur = 0
  /\ currentMethodCalls = <<>> /\ ai = 0 /\ index = 0 /\ hasAssert = FALSE /\ methodCallMap = <<>>
  /\ results = <<>>

\* choose the next statement of the test method
AddStmt ==
  /\ phase = "build" /\ Len(body) < MaxBody
  /\ \E a \in Alphabet : body' = Append(body, Sym(a))
  /\ UNCHANGED <<path, annos, hkind, phase, entries, files, panic, captured, todo, cur,
                 currentMethodCalls, ai, index, hasAssert, methodCallMap, results>>

\* GetJavaTestFiles: filepath.Walk visits every directory and the file below the root
StartWalk ==
  /\ phase = "build"
  /\ LET dirs == InputFile.dirs
     IN  entries' = [i \in 1..Len(dirs) |-> [segs |-> SubSeq(dirs, 1, i), isDir |-> TRUE]]
                    \o <<[segs |-> Append(dirs, InputFile.name), isDir |-> FALSE]>>
  /\ phase' = "walk" /\ files' = <<>>
  /\ UNCHANGED <<path, annos, hkind, body, panic, captured, todo, cur,
                 currentMethodCalls, ai, index, hasAssert, methodCallMap, results>>

\* JavaTestFileFilter on a walked path
ContainsTestRoot(segs) ==
  \E i \in 1..(Len(segs) - 3) : segs[i] = "src" /\ segs[i + 1] = "test" /\ segs[i + 2] = "java"
JavaTestFileFilter(segs) ==
  LET last == segs[Len(segs)]
  IN  (Repaired => HasSuffix(last, ".java")) /\
      (HasSuffix(last, "Test.java") \/ HasSuffix(last, "Tests.java") \/ ContainsTestRoot(segs))

WalkEntry ==
  /\ phase = "walk" /\ entries # <<>>
  /\ files' = IF JavaTestFileFilter(entries[1].segs) THEN Append(files, entries[1]) ELSE files
  /\ entries' = Tail(entries)
  /\ UNCHANGED <<path, annos, hkind, body, phase, panic, captured, todo, cur,
                 currentMethodCalls, ai, index, hasAssert, methodCallMap, results>>

EndWalk ==
  /\ phase = "walk" /\ entries = <<>>
  /\ phase' = "parse"
  /\ UNCHANGED <<path, annos, hkind, body, entries, files, panic, captured, todo, cur,
                 currentMethodCalls, ai, index, hasAssert, methodCallMap, results>>

\* AnalysisFiles: one parse per selected path. A directory has no stream: nil dereference.
\* BuildAnnotationForMethod keeps the first modifier only (unrepaired) / every annotation (repaired).
ParseFile ==
  /\ phase = "parse"
  /\ IF files = <<>>
     THEN /\ phase' = "done" /\ UNCHANGED <<files, panic, captured, todo>>
     ELSE IF files[1].isDir
     THEN /\ panic' = TRUE /\ phase' = "done" /\ UNCHANGED <<files, captured, todo>>
     ELSE /\ captured' = [j \in DOMAIN Methods |->
                            LET an == Methods[j].annos
                            IN  IF Repaired \/ an = <<>> THEN an ELSE <<an[1]>>]
          /\ files' = Tail(files) /\ todo' = DOMAIN Methods /\ phase' = "methods"
          /\ UNCHANGED panic
  /\ UNCHANGED <<path, annos, hkind, body, entries, cur,
                 currentMethodCalls, ai, index, hasAssert, methodCallMap, results>>

IsJunitTest(an) == \E i \in DOMAIN an : an[i].name \in {"Test", "Ignore"}

\* `for _, method := range clz.Functions` (Functions come out of a map: any order)
\* not a JUnit test: continue
SkipMethod ==
  /\ phase = "methods"
  /\ \E j \in todo : /\ ~IsJunitTest(captured[j])
                     /\ todo' = todo \ {j}
  /\ UNCHANGED <<path, annos, hkind, body, phase, entries, files, panic, captured, cur,
                 currentMethodCalls, ai, index, hasAssert, methodCallMap, results>>

\* updateMethodCallsForSelfCall: append the calls of every same-class callee found in callMethodMap
\* (`this.helper()` is recorded with NodeName "this"; repair C11-3 resolves it to the class itself)
SelfCallee(c) == IF ~c.new /\ (NodeName(c) = Cls \/ (Repaired /\ NodeName(c) = "this"))
                 THEN {j \in DOMAIN Methods : Methods[j].name = FunctionName(c)} ELSE {}
RECURSIVE Inlined(_, _)
Inlined(cs, k) == IF k > Len(cs) THEN <<>>
                  ELSE (IF SelfCallee(cs[k].c) = {} THEN <<>> ELSE Recorded(CHOOSE j \in SelfCallee(cs[k].c) : TRUE))
                       \o Inlined(cs, k + 1)

EnterMethod ==
  /\ phase = "methods"
  /\ \E j \in todo : /\ IsJunitTest(captured[j])
                     /\ cur' = j
                     /\ currentMethodCalls' = Recorded(j) \o Inlined(Recorded(j), 1)
  /\ phase' = "annos" /\ ai' = 1
  /\ UNCHANGED <<path, annos, hkind, body, entries, files, panic, captured, todo,
                 index, hasAssert, methodCallMap, results>>

Finding(type, line) == [file |-> Path(FileId), type |-> type, line |-> line]

\* `for _, annotation := range method.Annotations`: checkIgnoreTest, checkEmptyTest
AnnotationStep ==
  /\ phase = "annos" /\ ai <= Len(captured[cur])
  /\ LET an == captured[cur][ai].name
         r1 == IF an = "Ignore" THEN Append(results, Finding("IgnoreTest", 0)) ELSE results
         r2 == IF an = "Test" /\ Len(currentMethodCalls) <= 1
               THEN Append(r1, Finding("EmptyTest", StartLine(cur))) ELSE r1
     IN  results' = r2
  /\ ai' = ai + 1
  /\ UNCHANGED <<path, annos, hkind, body, phase, entries, files, panic, captured, todo, cur,
                 currentMethodCalls, index, hasAssert, methodCallMap>>

EndAnnotations ==
  /\ phase = "annos" /\ ai > Len(captured[cur])
  /\ phase' = "calls" /\ index' = 1 /\ hasAssert' = FALSE /\ methodCallMap' = <<>>
  /\ UNCHANGED <<path, annos, hkind, body, entries, files, panic, captured, todo, cur,
                 currentMethodCalls, ai, results>>

\* checkAssert
WithUnknown(rs, has) == IF has THEN rs ELSE Append(rs, Finding("UnknownTest", StartLine(cur)))

\* `for index, methodCall := range currentMethodCalls`
CallStep ==
  /\ phase = "calls" /\ index <= Len(currentMethodCalls)
  /\ LET e == currentMethodCalls[index]
         c == e.c
         isLast == index = Len(currentMethodCalls)
     IN  IF FunctionName(c) = ""
         THEN \* a creation: only the `last` check, then continue
              /\ results' = IF isLast THEN WithUnknown(results, hasAssert) ELSE results
              /\ UNCHANGED <<hasAssert, methodCallMap>>
         ELSE LET key == FullName(c)
                  r1 == IF IsSystemOutput(c) THEN Append(results, Finding("RedundantPrintTest", e.line)) ELSE results
                  r2 == IF IsThreadSleep(c) THEN Append(r1, Finding("SleepyTest", e.line)) ELSE r1
                  ps == Parameters(c)
                  r3 == IF Len(ps) = 2 /\ ps[1] = ps[2]
                        THEN Append(r2, Finding("RedundantAssertionTest", StartLine(cur))) ELSE r2
                  has == hasAssert \/ HasAssertion(c)
              IN  /\ methodCallMap' = IF key \in DOMAIN methodCallMap
                                      THEN [methodCallMap EXCEPT ![key] = Append(@, c)]
                                      ELSE methodCallMap @@ (key :> <<c>>)
                  /\ hasAssert' = has
                  /\ results' = IF isLast THEN WithUnknown(r3, has) ELSE r3
  /\ index' = index + 1
  /\ UNCHANGED <<path, annos, hkind, body, phase, entries, files, panic, captured, todo, cur,
                 currentMethodCalls, ai>>

EndCalls ==
  /\ phase = "calls" /\ index > Len(currentMethodCalls)
  /\ phase' = "dup"
  /\ UNCHANGED <<path, annos, hkind, body, entries, files, panic, captured, todo, cur,
                 currentMethodCalls, ai, index, hasAssert, methodCallMap, results>>

\* checkDuplicateAssertTest, then the next method
DuplicateStep ==
  /\ phase = "dup"
  /\ LET isDup == \E k \in DOMAIN methodCallMap :
                     Len(methodCallMap[k]) >= 5 /\ HasAssertion(methodCallMap[k][Len(methodCallMap[k])])
     IN  results' = IF isDup THEN Append(results, Finding("DuplicateAssertTest", StartLine(cur))) ELSE results
  /\ todo' = todo \ {cur} /\ phase' = "methods"
  /\ UNCHANGED <<path, annos, hkind, body, entries, files, panic, captured, cur,
                 currentMethodCalls, ai, index, hasAssert, methodCallMap>>

\* all methods of the class visited: next selected path
EndMethods ==
  /\ phase = "methods" /\ todo = {}
  /\ phase' = "parse"
  /\ UNCHANGED <<path, annos, hkind, body, entries, files, panic, captured, todo, cur,
                 currentMethodCalls, ai, index, hasAssert, methodCallMap, results>>

Finished == phase = "done"
Done == Finished /\ UNCHANGED vars

Next == AddStmt \/ StartWalk \/ WalkEntry \/ EndWalk \/ ParseFile \/ SkipMethod \/ EnterMethod
        \/ AnnotationStep \/ EndAnnotations \/ CallStep \/ EndCalls \/ DuplicateStep \/ EndMethods \/ Done

Spec == Init /\ [][Next]_vars

-----------------------------------------------------------------------------
(* Properties *)

MachineRec == [input |-> InputRec, facts |-> MachineFacts,
               observed |-> [panic |-> panic, timeout |-> FALSE, findings |-> results,
                             nums |-> 0 - 1, hasTable |-> FALSE, table |-> <<>>]]

\* the finished report satisfies the property-level Reference, except for the listed
\* known-finding shapes (items carrying a spec-computed tag)
C11_FindingsExact == Finished => {it \in Diff(MachineRec) : it.tags = {}} = {}

\* a file that is not a test file never produces a finding (at no point of the run)
C11_OnlyTestFiles == results # <<>> => IsTestFile(FileId)

\* every finding names the file of the class it was found in
C11_FileAttribution == results # <<>> => LET p == Path(FileId) IN \A k \in DOMAIN results : results[k].file = p

\* the call loop never runs past the list, the `last` check happens at most once per method
C11_LoopBounds == index <= Len(currentMethodCalls) + 1 /\ ai <= Len(AnnosOf(annos)) + 1

\* generation: every explored abstract input, with the Machine's own report (drift note only)
Emit == Finished => PrintT(<<"CASE", ToJson([input |-> InputRec,
                                             machine |-> [panic |-> panic, types |-> [k \in DOMAIN results |-> results[k].type]]])>>)
=============================================================================
