\* thorough: DI maps and api requests (budget reset per API), lists <= 2 over declared methods, with liveness
SPECIFICATION Spec
CONSTANTS
  MaxCalls = 2
  WithExt = FALSE
  WithDI = TRUE
  Kinds = {"api", "lookup"}
INVARIANTS C03_EdgeSound C03_BudgetBound C04_EdgeSound C03_C04_Reference C07_SameTwice Emit
PROPERTY C03_C04_Terminates
