------------------------------ MODULE X02Suggest ------------------------------
(* Implementation-shaped Machine of `coca suggest`:                                       *)
(*   suggest.SuggestApp.AnalysisPath   for _, clz := range deps: Type == "Class" and       *)
(*                                     len(Functions) > 0  => factorySuggest               *)
(*   factorySuggest                    registers constructorCount,                         *)
(*                                     longestParaConstructorMethod (:= Functions[0]),     *)
(*                                     currentSuggestList; one loop step per function;     *)
(*                                     then the two threshold tests                        *)
(*   api_domain.MergeSuggest           one loop step per collected suggestion, the         *)
(*                                     strings.Contains tests on the merged strings        *)
(* The functions of the class are chosen incrementally (the loop step that needs the      *)
(* next function picks it), so TLC enumerates every class of <= MaxFuncs functions over    *)
(* the shape pool; when a class is finished the Machine's suggestions are judged by the    *)
(* same Reference (X02SuggestRef!Diff) that judges the real code, and the model is         *)
(* emitted as a replay case.  Two switches name the places where the code as it is         *)
(* deviates from the statement (proposed_fixes/X02.md).                                    *)
EXTENDS X02SuggestRef, Json

CONSTANTS MaxClasses, MaxFuncs,
          Types,         \* class types to choose from
          Shapes,        \* pool of function shapes [ctor, params, calls, span]
          LongestInit,   \* "first-function": longestParaConstructorMethod starts as Functions[0] whatever it is (as is)
                         \* "constructors":   only constructors are candidates (proposed_fixes/X02-1.patch)
          MergeKeeps     \* "nothing": MergeSuggest copies pattern and reason only (as is)
                         \* "first":   it also keeps the first non-zero size and line (proposed_fixes/X02-2.patch)

VARIABLES classes,       \* the model chosen so far (input); the last class is the one being processed
          open,          \* the function list of the current class may still grow
          phase,         \* "class" | "funcs" | "tests" | "merge" | "done"
          fi,            \* index of the function loop
          constructorCount, longest,   \* longest: [valid, params] (valid = FALSE: no candidate yet)
          list,          \* currentSuggestList: Seq([pattern, reason, size, line])
          mi, merged,    \* MergeSuggest: loop index, the suggestion being built
          suggests       \* result of AnalysisPath

vars == <<classes, open, phase, fi, constructorCount, longest, list, mi, merged, suggests>>

ShapesQuick == [ctor : BOOLEAN, params : {0, 4, 5, 6}, calls : {0, 8, 9}, span : {2, 3}]
ShapesTiny  == [ctor : BOOLEAN, params : {2, 5}, calls : {9}, span : {3}]
ShapesFour  == [ctor : BOOLEAN, params : {4, 5}, calls : {8, 9}, span : {2, 3}]
ShapesWide  == [ctor : BOOLEAN, params : {0, 1, 4, 5, 6}, calls : {0, 4, 5, 8, 9, 10}, span : {0, 2, 3, 4}]

Cur == classes[Len(classes)]
StartOf(i) == 10 * i
\* the model as the Reference reads it
FuncOf(f, i) == [ctor |-> f.ctor, params |-> f.params, calls |-> f.calls, start |-> StartOf(i), stop |-> StartOf(i) + f.span]
ClassOf(c, n) == [file |-> "p/C" \o ToString(n) \o ".java", pkg |-> "p", name |-> "C" \o ToString(n), type |-> c.type,
                  funcs |-> [i \in DOMAIN c.funcs |-> FuncOf(c.funcs[i], i)]]
Model == [n \in DOMAIN classes |-> ClassOf(classes[n], n)]

Init ==
  /\ classes = <<>> /\ open = FALSE /\ phase = "class" /\ fi = 1
  /\ constructorCount = 0 /\ longest = [valid |-> FALSE, params |-> 0]
  /\ list = <<>> /\ mi = 1 /\ merged = [pattern |-> "", reason |-> "", size |-> 0, line |-> 0]
  /\ suggests = <<>>

-----------------------------------------------------------------------------
(* AnalysisPath *)

NextClass ==         \* loop head: the next class of the model (its type; its functions follow one by one)
  /\ phase = "class" /\ Len(classes) < MaxClasses
  /\ \E t \in Types : classes' = Append(classes, [type |-> t, funcs |-> <<>>])
  /\ open' = TRUE /\ phase' = "funcs" /\ fi' = 1
  /\ constructorCount' = 0 /\ longest' = [valid |-> FALSE, params |-> 0] /\ list' = <<>>
  /\ UNCHANGED <<mi, merged, suggests>>

EndModel ==
  /\ phase = "class" /\ classes # <<>>
  /\ phase' = "done"
  /\ UNCHANGED <<classes, open, fi, constructorCount, longest, list, mi, merged, suggests>>

AddFunc ==           \* input choice: the class has one more function
  /\ phase = "funcs" /\ open /\ (Cur.type # "Class" \/ fi > Len(Cur.funcs)) /\ Len(Cur.funcs) < MaxFuncs
  /\ \E s \in Shapes : classes' = [classes EXCEPT ![Len(classes)].funcs = Append(@, s)]
  /\ UNCHANGED <<open, phase, fi, constructorCount, longest, list, mi, merged, suggests>>

CloseFuncs ==        \* input choice: no more functions
  /\ phase = "funcs" /\ open /\ (Cur.type # "Class" \/ fi > Len(Cur.funcs))
  /\ open' = FALSE
  /\ UNCHANGED <<classes, phase, fi, constructorCount, longest, list, mi, merged, suggests>>

SkipClass ==         \* `if clz.Type == "Class" { if len(clz.Functions) > 0 {` fails
  /\ phase = "funcs" /\ ~open /\ (Cur.type # "Class" \/ Len(Cur.funcs) = 0)
  /\ phase' = "class"
  /\ UNCHANGED <<classes, open, fi, constructorCount, longest, list, mi, merged, suggests>>

-----------------------------------------------------------------------------
(* factorySuggest *)

Sug(p, r, s, l) == [pattern |-> p, reason |-> r, size |-> s, line |-> l]

FuncStep ==          \* loop body `for _, method := range clz.Functions`
  /\ phase = "funcs" /\ Cur.type = "Class" /\ fi <= Len(Cur.funcs)
  /\ LET f == Cur.funcs[fi]
         \* `var longestParaConstructorMethod = clz.Functions[0]` before the loop
         l0 == IF fi = 1 /\ LongestInit = "first-function" THEN [valid |-> TRUE, params |-> Cur.funcs[1].params] ELSE longest
     IN  IF f.ctor
         THEN /\ constructorCount' = constructorCount + 1
              /\ longest' = IF ~l0.valid \/ f.params >= l0.params THEN [valid |-> TRUE, params |-> f.params] ELSE l0
              /\ list' = IF f.span > f.params - 3 /\ f.calls > f.params + 3
                         THEN Append(list, Sug("factory", "complex constructor", 0, StartOf(fi)))
                         ELSE list
         ELSE /\ longest' = l0
              /\ UNCHANGED <<constructorCount, list>>
  /\ fi' = fi + 1
  /\ UNCHANGED <<classes, open, phase, mi, merged, suggests>>

Thresholds ==        \* after the loop: the two `if`s, then MergeSuggest is entered
  /\ phase = "funcs" /\ ~open /\ Cur.type = "Class" /\ Len(Cur.funcs) > 0 /\ fi > Len(Cur.funcs)
  /\ LET l1 == IF constructorCount >= 3 THEN Append(list, Sug("factory", "too many constructor", constructorCount, 0)) ELSE list
         l2 == IF longest.valid /\ longest.params >= 5 THEN Append(l1, Sug("builder", "too many parameters", longest.params, 0)) ELSE l1
     IN  list' = l2
  /\ phase' = "merge" /\ mi' = 1
  /\ merged' = [pattern |-> "", reason |-> "", size |-> 0, line |-> 0]
  /\ UNCHANGED <<classes, open, fi, constructorCount, longest, suggests>>

-----------------------------------------------------------------------------
(* MergeSuggest *)

Contains(h, n) == n = "" \/ \E i \in 1..(Len(h) - Len(n) + 1) : SubSeq(h, i, i + Len(n) - 1) = n
Join(a, b) == IF a # "" THEN a \o ", " \o b ELSE b

MergeStep ==         \* loop body `for _, s := range currentSuggestList`
  /\ phase = "merge" /\ mi <= Len(list)
  /\ LET s == list[mi]
     IN  merged' = [pattern |-> IF Contains(merged.pattern, s.pattern) THEN merged.pattern ELSE Join(merged.pattern, s.pattern),
                    reason  |-> IF Contains(merged.reason, s.reason) THEN merged.reason ELSE Join(merged.reason, s.reason),
                    size    |-> IF MergeKeeps = "first" /\ merged.size = 0 THEN s.size ELSE merged.size,
                    line    |-> IF MergeKeeps = "first" /\ merged.line = 0 THEN s.line ELSE merged.line]
  /\ mi' = mi + 1
  /\ UNCHANGED <<classes, open, phase, fi, constructorCount, longest, list, suggests>>

MergeEnd ==          \* `if suggest.Pattern != "" { suggests = append(suggests, suggest) }`
  /\ phase = "merge" /\ mi > Len(list)
  /\ suggests' = IF merged.pattern # ""
                 THEN Append(suggests, [class |-> Len(classes), pattern |-> merged.pattern, reason |-> merged.reason,
                                        size |-> merged.size, line |-> merged.line])
                 ELSE suggests
  /\ phase' = "class"
  /\ UNCHANGED <<classes, open, fi, constructorCount, longest, list, mi, merged>>

Finished == phase = "done"
Done == Finished /\ UNCHANGED vars

Next == NextClass \/ EndModel \/ AddFunc \/ CloseFuncs \/ SkipClass \/ FuncStep \/ Thresholds \/ MergeStep \/ MergeEnd \/ Done
Spec == Init /\ [][Next]_vars

-----------------------------------------------------------------------------
(* Properties *)

\* projection of a merged string: split at ", "
RECURSIVE SplitCS(_, _, _)
SplitCS(s, i, cur) ==
  IF i > Len(s) THEN (IF cur = "" /\ s = "" THEN <<>> ELSE <<cur>>)
  ELSE IF i < Len(s) /\ SubSeq(s, i, i + 1) = ", " THEN <<cur>> \o SplitCS(s, i + 2, "")
  ELSE SplitCS(s, i + 1, cur \o SubSeq(s, i, i))

ObsOf(s) == LET c == Model[s.class]
            IN  [file |-> c.file, pkg |-> c.pkg, class |-> c.name, patterns |-> SplitCS(s.pattern, 1, ""),
                 reasons |-> SplitCS(s.reason, 1, ""), size |-> s.size, line |-> s.line]
Observed == [panic |-> FALSE, wellformed |-> TRUE, sized |-> TRUE, suggests |-> [k \in DOMAIN suggests |-> ObsOf(suggests[k])]]
Input == [via |-> "model", dflag |-> FALSE]

\* the finished report is exactly what the Reference allows
X02_SuggestionsExact == Finished => Diff([input |-> Input, model |-> Model, observed |-> Observed]) = {}
\* at most one suggestion per class, in class order (register sanity, every state)
X02_OnePerClass == \A i, j \in DOMAIN suggests : i < j => suggests[i].class < suggests[j].class
\* the counter register counts the constructors seen so far
X02_CounterRegister == phase = "funcs" /\ Cur.type = "Class" =>
                         constructorCount = Cardinality({i \in 1..(fi - 1) : i \in DOMAIN Cur.funcs /\ Cur.funcs[i].ctor})

CaseClass(c, n) == [pkg |-> "p", name |-> "C" \o ToString(n), type |-> c.type, funcs |-> c.funcs]
Emit == Finished => PrintT(<<"CASE", ToJson([input |-> [via |-> "model", classes |-> [n \in DOMAIN classes |-> CaseClass(classes[n], n)]]])>>)

\* development aid (tlc -continue): print the violating models
ShowDiff == Finished => LET d == Diff([input |-> Input, model |-> Model, observed |-> Observed])
                        IN  IF d = {} THEN TRUE ELSE PrintT(<<"NOTE", ToJson([classes |-> classes, suggests |-> suggests, diff |-> d])>>)
=============================================================================
