--------------------------- MODULE SpringApiRef ---------------------------
(* Property-level Reference for the Spring API scan (C12) and for the independence   *)
(* of a controller's entries from other files, order and repetition (C07, API part). *)
(*                                                                                   *)
(* Abstract file:                                                                    *)
(*   [pkg, cls, ctrl  \in {"RestController","Controller","none"},                    *)
(*    mapfirst : BOOLEAN   (class-level @RequestMapping written before the controller*)
(*                          annotation),                                             *)
(*    base : [form \in {"none","short","value"}, path],                              *)
(*    members : Seq([kind \in {"handler","plain"}, name, ann, verb,                  *)
(*                   form \in {"none","short","value"}, path,                        *)
(*                   params : Seq([type, name, body : BOOLEAN])])]                   *)
(* A case is a pool of files and a history of runs (each run = AnalysisPath over a   *)
(* directory holding the listed files in that processing order) in ONE process.      *)
(* Observation per run: [panic, apis : Seq([verb, uri, body, pkg, cls, method])].    *)
EXTENDS Naturals, Sequences, FiniteSets, TLC

Range(s) == {s[i] : i \in DOMAIN s}
Bag(s) == [x \in Range(s) |-> Cardinality({i \in DOMAIN s : s[i] = x})]

BasePath(f) == IF f.base.form = "none" THEN "" ELSE f.base.path
MemberPath(m) == IF m.form = "none" THEN "" ELSE m.path
BodyOf(m) == LET b == SelectSeq(m.params, LAMBDA p : p.body)
             IN  IF b = <<>> THEN "" ELSE b[1].type

Entry(f, m) == [verb |-> m.verb, uri |-> BasePath(f) \o MemberPath(m), body |-> BodyOf(m),
                pkg |-> f.pkg, cls |-> f.cls, method |-> m.name]

\* exactly one entry per handler method of a controller class; nothing otherwise
Expected(f) ==
  IF f.ctrl = "none" THEN <<>>
  ELSE LET hs == SelectSeq(f.members, LAMBDA m : m.kind = "handler")
       IN  [i \in DOMAIN hs |-> Entry(f, hs[i])]

OfFile(apis, f) == SelectSeq(apis, LAMBDA a : a.pkg = f.pkg /\ a.cls = f.cls)

Item(p, k, w, t) == [prop |-> p, kind |-> k, where |-> w, tags |-> t]

DiffFile(apis, f, run) ==
  LET exp == Expected(f)
      got == OfFile(apis, f)
      w(e) == "run " \o ToString(run) \o " " \o f.cls \o "." \o e.method \o " " \o e.verb \o " " \o e.uri
  IN  {Item("C12", "missing-entry", w(e), {}) : e \in Range(exp) \ Range(got)} \cup
      {Item("C12", "unexpected-entry", w(e), {}) : e \in Range(got) \ Range(exp)} \cup
      {Item("C12", "duplicated-entry", w(e), {}) :
          e \in {x \in Range(got) \cap Range(exp) : Bag(got)[x] # Bag(exp)[x]}}

\* A run made through the command line (`coca api -f -p DIR`): api.csv lists the same handlers as the API list, one row
\* each, with verb, URI and the handler's full name (the Size column belongs to C03)
Concat(ss) == LET RECURSIVE C(_) C(k) == IF k > Len(ss) THEN <<>> ELSE ss[k] \o C(k + 1) IN C(1)
DiffCsv(o, fs, r) ==
  LET all == Concat([i \in DOMAIN fs |-> Expected(fs[i])])
      \* with `-a <prefix>` the table lists the handlers whose URI begins with the prefix (the API list itself stays whole)
      pre(u) == o.agg = "" \/ (Len(u) >= Len(o.agg) /\ SubSeq(u, 1, Len(o.agg)) = o.agg)
      exp == SelectSeq(all, LAMBDA e : pre(e.uri))
      want == [i \in DOMAIN exp |-> [verb |-> exp[i].verb, uri |-> exp[i].uri,
                                      caller |-> exp[i].pkg \o "." \o exp[i].cls \o "." \o exp[i].method]]
  IN  IF ~o.csvOk THEN {Item("C12", "csv-missing-or-malformed", "run " \o ToString(r), {})}
      ELSE {Item("C12", "csv-row-missing", "run " \o ToString(r) \o " " \o e.caller \o " " \o e.verb \o " " \o e.uri, {}) :
              e \in {x \in Range(want) : x \notin Range(o.csv) \/ Bag(o.csv)[x] < Bag(want)[x]}} \cup
           {Item("C12", "csv-row-unexpected", "run " \o ToString(r) \o " " \o e.caller \o " " \o e.verb \o " " \o e.uri, {}) :
              e \in {x \in Range(o.csv) : x \notin Range(want) \/ Bag(o.csv)[x] > Bag(want)[x]}}

DiffRun(rec, r) ==
  LET o == rec.observed[r]
      fs == [i \in DOMAIN rec.runs[r] |-> rec.files[rec.runs[r][i]]]
  IN  IF o.panic THEN {Item("C12", "panic", "run " \o ToString(r), {})}
      ELSE (IF o.cli THEN DiffCsv(o, fs, r) ELSE {}) \cup
           UNION {DiffFile(o.apis, fs[i], r) : i \in DOMAIN fs} \cup
           {Item("C12", "foreign-entry", a.cls \o "." \o a.method, {}) :
              a \in {x \in Range(o.apis) : \A i \in DOMAIN fs : ~(x.pkg = fs[i].pkg /\ x.cls = fs[i].cls)}}

\* C07: the entries produced for a file are the same in every run of the history that contains it
DiffRepeat(rec) ==
  LET n == Len(rec.runs)
      has(r, k) == \E i \in DOMAIN rec.runs[r] : rec.runs[r][i] = k
      slice(r, k) == Bag(OfFile(rec.observed[r].apis, rec.files[k]))
  IN  {Item("C07", "file-result-differs", rec.files[k].cls \o " runs " \o ToString(<<r1, r2>>), {}) :
         <<k, r1, r2>> \in {<<k, r1, r2>> \in (DOMAIN rec.files) \X (1..n) \X (1..n) :
                              /\ r1 < r2 /\ has(r1, k) /\ has(r2, k)
                              /\ ~rec.observed[r1].panic /\ ~rec.observed[r2].panic
                              /\ slice(r1, k) # slice(r2, k)}}

Diff(rec) == UNION {DiffRun(rec, r) : r \in DOMAIN rec.runs} \cup DiffRepeat(rec)
=============================================================================
