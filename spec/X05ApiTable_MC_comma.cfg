\* the code AS IT IS with a URI that contains a comma (a path variable with a regular expression)
SPECIFICATION Spec
CONSTANTS
  Cmd = "api"
  ModelPool = "plain"
  UriPool = "comma"
  RemovePool = "plain"
  MaxApis = 2
  RemoveForm = "anywhere"
  CsvForm = "joined"
INVARIANTS X05_OutputExactOrTagged X05_FilterKeepsOrder X05_SortIsAPermutation X05_OneRowPerApi Emit
