------------------------------- MODULE Cloc -------------------------------
(* Implementation-shaped Machine of `coca cloc` (cmd/cloc.go, pkg/application/cloc,   *)
(* pkg/domain/cloc): ONE process executing either                                     *)
(*   processByDirectory: ReadDir -> base run -> BuildBaseKey -> processDirs (one run  *)
(*     of the counting engine per non-ignored sub-directory, each configured through  *)
(*     the engine's process-global option registers) -> ConvertToCsv (BuildLanguageMap *)
(*     per output file, BuildClocCsvData per map entry, in map order) -> WriteToCsv    *)
(*   processTopFile: options -> run -> read top_cloc.json -> SortLangeByCode ->        *)
(*     console tables (<= 5 languages, cut at --top-size, location trimmed with        *)
(*     strings.TrimLeft) -> sort_cloc.json                                             *)
(* Registers are named after the real ones (processor.DirFilePaths, FileOutput,        *)
(* Format, Files, AllowListExtensions; the reporter directory is the function `fs`).   *)
(* The counting engine itself (scc's concurrent pipeline) is ONE atomic action `Run`   *)
(* that reads the option registers: what is modelled is which options coca sets, when, *)
(* and which files it reads back.  The Machine is judged by the same Reference         *)
(* (ClocRef!DiffTable / DiffConsole / DiffJson) that judges the real binary.           *)
EXTENDS ClocRef, Json

CONSTANTS Shape,         \* "bydir2" | "bydir3" | "bydir2w" | "top2q" | "top2" | "top3": which input family is enumerated
          Roots,         \* set of DIR spellings
          ExtFilters,    \* set of include-ext lists, by name: "none" | "java" | "go" | "kt" | "java,py"
          Tops,          \* set of --top-size values
          Stride         \* emit every Stride-th explored input as a replay case (1 = all)

VARIABLES input,         \* the abstract input (JSON shape of ClocRef)
          pc, ret,       \* control: program point, and where `Run` returns to
          DirFilePaths,  \* processor.DirFilePaths
          FileOutput,    \* processor.FileOutput
          Format,        \* processor.Format
          Files,         \* processor.Files
          AllowExt,      \* processor.AllowListExtensions (set once from --include-ext)
          nruns,         \* how often processor.Process ran (ProcessConstants appends to the extension table every time)
          fs,            \* files of coca_reporter: name -> content (a sequence of language summaries)
          dirs, di,      \* processByDirectory: sub-directory paths, loop index of processDirs
          keys,          \* BuildBaseKey
          outputFiles,   \* processDirs
          ci,            \* ConvertToCsv loop index
          languageMap,   \* dirName -> (language -> code)
          pending,       \* map entries BuildClocCsvData has not visited yet (iteration order of a Go map is arbitrary)
          data,          \* csv data: header + rows
          sums, li,      \* processTopFile: languageSummaries, loop index
          srest, sacc,   \* SortLangeByCode: files of the current language not yet placed / placed
          tables,        \* console tables printed
          obs            \* the observation, in the shape of rec.observed

vars == <<input, pc, ret, DirFilePaths, FileOutput, Format, Files, AllowExt, nruns, fs, dirs, di, keys,
          outputFiles, ci, languageMap, pending, data, sums, li, srest, sacc, tables, obs>>

-----------------------------------------------------------------------------
(* input families *)

LangSeq == <<[lang |-> "Java", ext |-> "java"], [lang |-> "Go", ext |-> "go"], [lang |-> "Python", ext |-> "py"]>>
NLang == IF Shape \in {"bydir2w", "top3"} THEN 3 ELSE 2
LI == 1..NLang
Mode == IF Shape \in {"bydir2", "bydir3", "bydir2w"} THEN "bydir" ELSE "top"

\* one option = the files of one language in one directory: Seq([c |-> code lines, o |-> comment = blank lines])
\* (c = 0, o = 0: a zero-line file; c = 0, o = 1: a file of comments and blank lines only)
Fo(c, o) == [c |-> c, o |-> o]
OptNone == <<>>
CellOptsByDir == {OptNone, <<Fo(0, 1)>>, <<Fo(1, 0)>>, <<Fo(1, 1), Fo(3, 0)>>}
CellOptsByDirWide == {OptNone, <<Fo(0, 0)>>, <<Fo(3, 1)>>, <<Fo(1, 1), Fo(3, 0)>>}
CellOptsTopQuick == {OptNone, <<Fo(1, 0)>>, <<Fo(1, 1), Fo(3, 0), Fo(3, 1)>>}
CellOptsTop == CellOptsTopQuick \cup {<<Fo(3, 1), Fo(1, 0)>>}
CellOptsTopWide == CellOptsTop \cup {<<Fo(0, 0), Fo(0, 1)>>, <<Fo(3, 0)>>}
RootOpts == {OptNone, <<Fo(1, 1)>>}

DirOrder == <<".git", ".hg", ".idea", ".svn", "coca_reporter", "east", "tea", "web">>
DirPool == CASE Shape = "bydir2"  -> {".git", ".idea", "coca_reporter", "east", "web"}
             [] Shape = "bydir3"  -> {".git", ".idea", "coca_reporter", "east", "web"}
             [] Shape = "bydir2w" -> {".git", ".hg", ".idea", ".svn", "coca_reporter", "east", "web"}
             [] Shape = "top2q"   -> {".idea", "east", "tea"}
             [] Shape = "top2"    -> {".idea", "east", "tea"}
             [] Shape = "top3"    -> {".git", ".idea", "east", "tea"}
MaxDirs == CASE Shape = "bydir3" -> 3 [] Shape = "top3" -> 1 [] OTHER -> 2
CellOpts == CASE Shape = "bydir2" -> CellOptsByDir [] Shape = "bydir3" -> CellOptsByDir [] Shape = "bydir2w" -> CellOptsByDirWide
              [] Shape = "top2q" -> CellOptsTopQuick [] Shape = "top2" -> CellOptsTop [] Shape = "top3" -> CellOptsTopWide
\* files directly in DIR
RootChoices == IF Shape = "bydir2w"
               THEN {[li_ \in LI |-> OptNone], [li_ \in LI |-> IF li_ = 3 THEN <<Fo(1, 1)>> ELSE OptNone]}
               ELSE [LI -> RootOpts]

ExtList(n) == CASE n = "none" -> <<>> [] n = "java" -> <<"java">> [] n = "go" -> <<"go">>
                [] n = "kt" -> <<"kt">> [] n = "java,py" -> <<"java", "py">>

RECURSIVE Flat(_)
Flat(ss) == IF ss = <<>> THEN <<>> ELSE Head(ss) \o Flat(Tail(ss))

FileRec(d, li_, k, fo) ==
  [dir |-> d, path |-> "f" \o ToString(k) \o "." \o LangSeq[li_].ext, lang |-> LangSeq[li_].lang,
   ext |-> LangSeq[li_].ext, code |-> fo.c, comment |-> fo.o, blank |-> fo.o, lay |-> 0]
\* c : LI -> option
FilesOf(d, c) == Flat([li_ \in LI |-> [k \in 1..Len(c[li_]) |-> FileRec(d, li_, k, c[li_][k])]])

DirSets == {D \in SUBSET DirPool : Cardinality(D) <= MaxDirs}
SeqOfDirs(D) == SelectSeq(DirOrder, LAMBDA d : d \in D)

\* The tree is chosen incrementally (one directory per `Build` step) so that TLC's workers share the
\* enumeration; `Build` is not part of the modelled command.
Skeleton(r, e, t, ds) == [root |-> r, modes |-> <<Mode>>, ext |-> ExtList(e), top |-> t, dirs |-> ds, files |-> <<>>]

-----------------------------------------------------------------------------
(* the counting engine, as far as coca depends on it *)

DenyList == {".git", ".hg", ".svn"}          \* --exclude-dir default: skipped BELOW the walked root
FullRoot == input.root                        \* (TLC cases never use the "@/" spelling)
Loc(i) == Full(FullRoot, input, i)
DirPath(d) == IF FullRoot = "." THEN d ELSE FullRoot \o "/" \o d

\* the files a run rooted at path p counts, given the allow list
Walk(p, allow) ==
  {i \in Idx(input) :
     /\ (allow = <<>> \/ F(input, i).ext \in Range(allow))
     /\ IF p = FullRoot THEN F(input, i).dir \notin DenyList
        ELSE F(input, i).dir # "" /\ p = DirPath(F(input, i).dir)}

LangPos(l) == CHOOSE k \in DOMAIN LangSeq : LangSeq[k].lang = l
\* language summaries sorted by number of files (descending), then by name
RECURSIVE SortSummaries(_)
SortSummaries(S) ==
  IF S = {} THEN <<>>
  ELSE LET m == CHOOSE s \in S : \A t \in S : s.Count > t.Count \/ (s.Count = t.Count /\ LangPos(s.Name) <= LangPos(t.Name))
       IN  <<m>> \o SortSummaries(S \ {m})

RECURSIVE SeqOfIdx(_)
SeqOfIdx(S) == IF S = {} THEN <<>> ELSE LET m == CHOOSE i \in S : \A j \in S : i <= j IN <<m>> \o SeqOfIdx(S \ {m})

FileJob(i) == [Location |-> Loc(i), Code |-> F(input, i).code, Comment |-> F(input, i).comment,
               Blank |-> F(input, i).blank, Lines |-> Lines(F(input, i))]
Summary(l, S, withFiles) ==
  [Name |-> l, Code |-> SumCode(input, S), Count |-> Cardinality(S),
   Files |-> IF withFiles THEN [k \in 1..Cardinality(S) |-> FileJob(SeqOfIdx(S)[k])] ELSE <<>>]
\* one engine run over every path in DirFilePaths (a stale extra path would be counted too)
Scc(paths, allow, withFiles) ==
  LET W == UNION {Walk(paths[k], allow) : k \in DOMAIN paths}
  IN  SortSummaries({Summary(l, {i \in W : F(input, i).lang = l}, withFiles) : l \in {F(input, i).lang : i \in W}})

-----------------------------------------------------------------------------
Init ==
  /\ \E D \in DirSets, r \in Roots, e \in ExtFilters, t \in Tops : input = Skeleton(r, e, t, SeqOfDirs(D))
  /\ pc = "build" /\ ret = ""
  /\ DirFilePaths = <<>> /\ FileOutput = "" /\ Format = "tabular" /\ Files = FALSE
  /\ AllowExt = <<>>
  /\ nruns = 0 /\ fs = <<>> /\ dirs = <<>> /\ di = 0 /\ keys = <<>> /\ outputFiles = <<>> /\ ci = 0
  /\ languageMap = <<>> /\ pending = {} /\ data = <<>> /\ sums = <<>> /\ li = 0 /\ srest = {} /\ sacc = <<>> /\ tables = <<>>
  /\ obs = [panic |-> FALSE]

U(vs) == UNCHANGED vs

\* input construction: files directly in DIR first (di = 0), then one sub-directory per step
Build ==
  /\ pc = "build"
  /\ IF di > Len(input.dirs) THEN /\ pc' = "start" /\ di' = 0 /\ input' = input
     ELSE /\ \E c \in (IF di = 0 THEN RootChoices ELSE [LI -> CellOpts]) :
               input' = [input EXCEPT !.files = @ \o FilesOf(IF di = 0 THEN "" ELSE input.dirs[di], c)]
          /\ di' = di + 1 /\ pc' = pc
  /\ UNCHANGED <<srest, sacc>>
  /\ U(<<ret, DirFilePaths, FileOutput, Format, Files, AllowExt, nruns, fs, dirs, keys, outputFiles, ci,
         languageMap, pending, data, sums, li, tables, obs>>)

\* clocCmd.Run: flags are parsed into the option registers; --top-file wins over --by-directory
Start ==
  /\ pc = "start"
  /\ AllowExt' = input.ext
  /\ pc' = IF Mode = "top" THEN "top_opts" ELSE "readdir"
  /\ UNCHANGED <<srest, sacc>>
  /\ U(<<input, ret, DirFilePaths, FileOutput, Format, Files, nruns, fs, dirs, di, keys, outputFiles, ci,
         languageMap, pending, data, sums, li, tables, obs>>)

\* runProcessor(): processor.Process() with whatever the option registers hold now
Run ==
  /\ pc = "run"
  /\ fs' = [n \in DOMAIN fs \cup {FileOutput} |->
              IF n = FileOutput THEN Scc(DirFilePaths, AllowExt, Files) ELSE fs[n]]
  /\ nruns' = nruns + 1
  /\ pc' = ret
  /\ UNCHANGED <<srest, sacc>>
  /\ U(<<input, ret, DirFilePaths, FileOutput, Format, Files, AllowExt, dirs, di, keys, outputFiles, ci,
         languageMap, pending, data, sums, li, tables, obs>>)

(* ---- processByDirectory ---- *)
ReadDir ==     \* ioutil.ReadDir(firstDir): every sub-directory, sorted by name
  /\ pc = "readdir"
  /\ dirs' = [k \in DOMAIN input.dirs |-> DirPath(input.dirs[k])]
  /\ Format' = "json"
  /\ pc' = "base_opts"
  /\ UNCHANGED <<srest, sacc>>
  /\ U(<<input, ret, DirFilePaths, FileOutput, Files, AllowExt, nruns, fs, di, keys, outputFiles, ci,
         languageMap, pending, data, sums, li, tables, obs>>)

BaseOpts ==    \* processBaseCloc
  /\ pc = "base_opts"
  /\ DirFilePaths' = <<FullRoot>> /\ FileOutput' = "base_cloc.json"
  /\ pc' = "run" /\ ret' = "keys"
  /\ UNCHANGED <<srest, sacc>>
  /\ U(<<input, Format, Files, AllowExt, nruns, fs, dirs, di, keys, outputFiles, ci, languageMap, pending, data, sums, li, tables, obs>>)

BuildBaseKey ==
  /\ pc = "keys"
  /\ keys' = [k \in DOMAIN fs["base_cloc.json"] |-> fs["base_cloc.json"][k].Name]
  /\ di' = 1 /\ pc' = "loop"
  /\ UNCHANGED <<srest, sacc>>
  /\ U(<<input, ret, DirFilePaths, FileOutput, Format, Files, AllowExt, nruns, fs, dirs, outputFiles, ci,
         languageMap, pending, data, sums, li, tables, obs>>)

LoopSkip ==    \* processDirs: IsIgnoreDir(baseName) -> continue
  /\ pc = "loop" /\ di <= Len(dirs) /\ input.dirs[di] \in Ignored
  /\ di' = di + 1
  /\ UNCHANGED <<srest, sacc>>
  /\ U(<<input, pc, ret, DirFilePaths, FileOutput, Format, Files, AllowExt, nruns, fs, dirs, keys, outputFiles, ci,
         languageMap, pending, data, sums, li, tables, obs>>)

LoopOpts ==    \* processDirs: options for this sub-directory, then runProcessor()
  /\ pc = "loop" /\ di <= Len(dirs) /\ input.dirs[di] \notin Ignored
  /\ DirFilePaths' = <<dirs[di]>>
  /\ FileOutput' = "cloc/" \o input.dirs[di] \o ".json"
  /\ outputFiles' = Append(outputFiles, "cloc/" \o input.dirs[di] \o ".json")
  /\ pc' = "run" /\ ret' = "loop_next"
  /\ UNCHANGED <<srest, sacc>>
  /\ U(<<input, Format, Files, AllowExt, nruns, fs, dirs, di, keys, ci, languageMap, pending, data, sums, li, tables, obs>>)

LoopNext ==
  /\ pc = "loop_next"
  /\ di' = di + 1 /\ pc' = "loop"
  /\ UNCHANGED <<srest, sacc>>
  /\ U(<<input, ret, DirFilePaths, FileOutput, Format, Files, AllowExt, nruns, fs, dirs, keys, outputFiles, ci,
         languageMap, pending, data, sums, li, tables, obs>>)

LoopEnd ==
  /\ pc = "loop" /\ di > Len(dirs)
  /\ ci' = 1 /\ languageMap' = <<>> /\ pc' = "csvmap"
  /\ UNCHANGED <<srest, sacc>>
  /\ U(<<input, ret, DirFilePaths, FileOutput, Format, Files, AllowExt, nruns, fs, dirs, di, keys, outputFiles,
         pending, data, sums, li, tables, obs>>)

\* the sub-directory a report file belongs to: TrimSuffix(Base(path), Ext(path))
DirNameOf(of) == SubSeq(of, 6, Len(of) - 5)        \* "cloc/" ... ".json"

BuildLanguageMap ==   \* one report file: every base key gets the summary of that name, or a zero summary
  /\ pc = "csvmap" /\ ci <= Len(outputFiles)
  /\ LET content == fs[outputFiles[ci]]
         dn == DirNameOf(outputFiles[ci])
         codeOf(k) == IF \E j \in DOMAIN content : content[j].Name = k
                      THEN content[CHOOSE j \in DOMAIN content : content[j].Name = k].Code ELSE 0
         entry == [k \in Range(keys) |-> codeOf(k)]
     IN  languageMap' = [d \in DOMAIN languageMap \cup {dn} |-> IF d = dn THEN entry ELSE languageMap[d]]
  /\ ci' = ci + 1
  /\ UNCHANGED <<srest, sacc>>
  /\ U(<<input, pc, ret, DirFilePaths, FileOutput, Format, Files, AllowExt, nruns, fs, dirs, di, keys, outputFiles,
         pending, data, sums, li, tables, obs>>)

CsvHeader ==
  /\ pc = "csvmap" /\ ci > Len(outputFiles)
  /\ data' = <<[name |-> "package", summary |-> 0, cells |-> <<>>]>>      \* row 1 stands for the header line
  /\ pending' = DOMAIN languageMap
  /\ pc' = "csvrows"
  /\ UNCHANGED <<srest, sacc>>
  /\ U(<<input, ret, DirFilePaths, FileOutput, Format, Files, AllowExt, nruns, fs, dirs, di, keys, outputFiles, ci,
         languageMap, sums, li, tables, obs>>)

CsvRow ==      \* BuildClocCsvData: `for dirName, dirSummary := range languageMap` - any order
  /\ pc = "csvrows"
  /\ \E d \in pending :
       LET cells == [k \in DOMAIN keys |-> languageMap[d][keys[k]]]
       IN  /\ data' = Append(data, [name |-> d, summary |-> SumSeq(cells), cells |-> cells])
           /\ pending' = pending \ {d}
  /\ UNCHANGED <<srest, sacc>>
  /\ U(<<input, pc, ret, DirFilePaths, FileOutput, Format, Files, AllowExt, nruns, fs, dirs, di, keys, outputFiles, ci,
         languageMap, sums, li, tables, obs>>)

WriteToCsv ==  \* every record goes to stdout (joined by commas) and to coca_reporter/cloc.csv
  /\ pc = "csvrows" /\ pending = {}
  /\ LET t == [ok |-> TRUE, header |-> <<"package", "summary">> \o keys, rows |-> Tail(data)]
     IN  obs' = [panic |-> FALSE, bydir |-> [ran |-> TRUE, exit |-> 0, stdout |-> t, csv |-> t]]
  /\ pc' = "done"
  /\ UNCHANGED <<srest, sacc>>
  /\ U(<<input, ret, DirFilePaths, FileOutput, Format, Files, AllowExt, nruns, fs, dirs, di, keys, outputFiles, ci,
         languageMap, pending, data, sums, li, tables>>)

(* ---- processTopFile ---- *)
TopOpts ==
  /\ pc = "top_opts"
  /\ DirFilePaths' = <<FullRoot>> /\ Format' = "json" /\ Files' = TRUE /\ FileOutput' = "top_cloc.json"
  /\ pc' = "run" /\ ret' = "top_read"
  /\ UNCHANGED <<srest, sacc>>
  /\ U(<<input, AllowExt, nruns, fs, dirs, di, keys, outputFiles, ci, languageMap, pending, data, sums, li, tables, obs>>)

TopRead ==
  /\ pc = "top_read"
  /\ sums' = fs["top_cloc.json"] /\ li' = 1 /\ pc' = "top_sort"
  /\ UNCHANGED <<srest, sacc>>
  /\ U(<<input, ret, DirFilePaths, FileOutput, Format, Files, AllowExt, nruns, fs, dirs, di, keys, outputFiles, ci,
         languageMap, pending, data, tables, obs>>)

TopSortBegin ==   \* SortLangeByCode: one language per iteration; sort.Slice by Code descending
  /\ pc = "top_sort" /\ li <= Len(sums)
  /\ srest' = DOMAIN sums[li].Files /\ sacc' = <<>> /\ pc' = "top_sort_pick"
  /\ U(<<input, ret, DirFilePaths, FileOutput, Format, Files, AllowExt, nruns, fs, dirs, di, keys, outputFiles, ci,
         languageMap, pending, data, sums, li, tables, obs>>)

TopSortPick ==    \* sort.Slice is not stable in general; for the short lists here it is an insertion sort, i.e.
                  \* equal Code keeps the engine's order. The Machine fixes that order (the Reference allows any).
  /\ pc = "top_sort_pick" /\ srest # {}
  /\ LET best == {m \in srest : \A j \in srest : sums[li].Files[m].Code >= sums[li].Files[j].Code}
         m == CHOOSE x \in best : \A y \in best : x <= y
     IN  /\ sacc' = Append(sacc, sums[li].Files[m])
         /\ srest' = srest \ {m}
  /\ U(<<input, pc, ret, DirFilePaths, FileOutput, Format, Files, AllowExt, nruns, fs, dirs, di, keys, outputFiles, ci,
         languageMap, pending, data, sums, li, tables, obs>>)

TopSortStore ==
  /\ pc = "top_sort_pick" /\ srest = {}
  /\ sums' = [sums EXCEPT ![li].Files = sacc]
  /\ li' = li + 1 /\ sacc' = <<>> /\ pc' = "top_sort"
  /\ U(<<input, ret, DirFilePaths, FileOutput, Format, Files, AllowExt, nruns, fs, dirs, di, keys, outputFiles, ci,
         languageMap, pending, data, srest, tables, obs>>)

TopSortEnd ==
  /\ pc = "top_sort" /\ li > Len(sums)
  /\ li' = 1
  /\ pc' = IF Len(sums) <= 5 THEN "top_print" ELSE "top_write"
  /\ UNCHANGED <<srest, sacc>>
  /\ U(<<input, ret, DirFilePaths, FileOutput, Format, Files, AllowExt, nruns, fs, dirs, di, keys, outputFiles, ci,
         languageMap, pending, data, sums, tables, obs>>)

TopPrint ==    \* one table per language: the first min(len, --top-size) files, location trimmed with TrimLeft(location, dir)
  /\ pc = "top_print" /\ li <= Len(sums)
  /\ LET n == Len(sums[li].Files)
         sizes == IF n >= input.top THEN input.top ELSE n
         row(k) == [code |-> sums[li].Files[k].Code, complexity |-> 0,
                    loc |-> TrimLeftCutset(sums[li].Files[k].Location, FullRoot)]
     IN  tables' = Append(tables, [lang |-> sums[li].Name, rows |-> [k \in 1..sizes |-> row(k)]])
  /\ li' = li + 1
  /\ UNCHANGED <<srest, sacc>>
  /\ U(<<input, pc, ret, DirFilePaths, FileOutput, Format, Files, AllowExt, nruns, fs, dirs, di, keys, outputFiles, ci,
         languageMap, pending, data, sums, obs>>)

TopPrintEnd ==
  /\ pc = "top_print" /\ li > Len(sums)
  /\ pc' = "top_write"
  /\ UNCHANGED <<srest, sacc>>
  /\ U(<<input, ret, DirFilePaths, FileOutput, Format, Files, AllowExt, nruns, fs, dirs, di, keys, outputFiles, ci,
         languageMap, pending, data, sums, li, tables, obs>>)

TopWrite ==    \* coca_reporter/sort_cloc.json: the sorted summaries, all files
  /\ pc = "top_write"
  /\ fs' = [n \in DOMAIN fs \cup {"sort_cloc.json"} |-> IF n = "sort_cloc.json" THEN sums ELSE fs[n]]
  /\ LET js == [k \in DOMAIN sums |->
                  [lang |-> sums[k].Name,
                   files |-> [j \in DOMAIN sums[k].Files |->
                                [loc |-> sums[k].Files[j].Location, code |-> sums[k].Files[j].Code,
                                 comment |-> sums[k].Files[j].Comment, blank |-> sums[k].Files[j].Blank,
                                 lines |-> sums[k].Files[j].Lines]]]]
     IN  obs' = [panic |-> FALSE,
                 top |-> [ran |-> TRUE, exit |-> 0, tablesok |-> TRUE, jsonok |-> TRUE, tables |-> tables, json |-> js]]
  /\ pc' = "done"
  /\ UNCHANGED <<srest, sacc>>
  /\ U(<<input, ret, DirFilePaths, FileOutput, Format, Files, AllowExt, nruns, dirs, di, keys, outputFiles, ci,
         languageMap, pending, data, sums, li, tables>>)

Finished == pc = "done"
Done == Finished /\ UNCHANGED vars

Next == Build \/ Start \/ Run \/ ReadDir \/ BaseOpts \/ BuildBaseKey \/ LoopSkip \/ LoopOpts \/ LoopNext \/ LoopEnd
        \/ BuildLanguageMap \/ CsvHeader \/ CsvRow \/ WriteToCsv
        \/ TopOpts \/ TopRead \/ TopSortBegin \/ TopSortPick \/ TopSortStore \/ TopSortEnd \/ TopPrint \/ TopPrintEnd \/ TopWrite \/ Done

Spec == Init /\ [][Next]_vars

-----------------------------------------------------------------------------
(* Properties: the Machine's report satisfies the Reference (checked when the command ends) *)

ByDirDone == Finished /\ Mode = "bydir"
TopDone == Finished /\ Mode = "top"
KindsOf(D) == {x.kind : x \in D}
BD == DiffTable(input, obs.bydir.stdout, "stdout")

\* header = languages of the whole tree; exactly one row per non-ignored immediate sub-directory
C16_RowPerDirectory ==
  ByDirDone => KindsOf(BD) \cap {"bydir-malformed", "bydir-header-short", "header-duplicate-language", "header-missing-language",
                                 "header-unexpected-language", "row-missing", "row-duplicate", "row-unexpected", "row-width"} = {}
C16_CellsExact == ByDirDone => "cell-wrong" \notin KindsOf(BD)
C16_SummaryIsSum == ByDirDone => "summary-not-sum" \notin KindsOf(BD)

\* agreement with the whole-tree count: per language, rows + files directly in DIR + files of the
\* ignored sub-directories the engine still walks (.idea, coca_reporter) = the base count
C16_AgreesWithBase ==
  ByDirDone =>
    \A k \in DOMAIN keys :
      LET base == fs["base_cloc.json"][k].Code
          rowsum == SumSeq([r \in DOMAIN obs.bydir.stdout.rows |-> obs.bydir.stdout.rows[r].cells[k]])
          rest == SumCode(input, {i \in Idx(input) : Passing(input, i) /\ F(input, i).lang = keys[k]
                                                     /\ F(input, i).dir \in ({""} \cup (Ignored \ DenyList))})
      IN  base = rowsum + rest

\* every run of the engine is configured for the directory it is meant to count, and writes its own file
C16_RunTargetsCurrentDir ==
  (pc = "run" /\ ret = "loop_next") =>
     /\ DirFilePaths = <<dirs[di]>>
     /\ FileOutput = outputFiles[Len(outputFiles)]
     /\ FileOutput \notin DOMAIN fs

\* top-file: sorted, truncated, same figures - on the console (up to the known location defect) and in the JSON
TD == DiffTop(FullRoot, input, obs.top)
C16_TopSortedTruncated == TopDone => \A x \in TD : CutsetTag \in x.tags
C16_TopJsonExact == TopDone => DiffJson(FullRoot, input, obs.top) = {}

\* generation: explored inputs become replay cases for the real binary. One line per input (printed when
\* the tree is complete, before the command starts); for the large families only every Stride-th input by
\* a checksum of the tree (the suite plan samples further).
Chk == SumSeq([i \in DOMAIN input.files |-> i * 7 + input.files[i].code * 3 + Len(input.files[i].dir)])
       + 5 * Len(input.dirs) + input.top + Len(input.ext)
Emit == (pc = "start" /\ Chk % Stride = 0) => PrintT(<<"CASE", ToJson([input |-> input])>>)
=============================================================================
