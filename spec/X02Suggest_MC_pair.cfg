\* two classes in one model (the result list is the only thing carried from class to class), <= 3 functions over 4 shapes
SPECIFICATION Spec
CONSTANTS
  MaxClasses = 2
  MaxFuncs = 3
  Types = {"Class", "Interface"}
  Shapes <- ShapesTiny
  LongestInit = "constructors"
  MergeKeeps = "first"
INVARIANTS X02_SuggestionsExact X02_OnePerClass X02_CounterRegister Emit
