------------------------------- MODULE Stats -------------------------------
(* Implementation-shaped Machine of the code behind C18, three parts selected by Part:  *)
(*  "count"   count.BuildCallMap (BuildStringMethodMap loop, counting loop) +           *)
(*            string_helper.SortWord + the row loop of `coca count`                     *)
(*  "eval"    the identifier listener over one class body (EnterMethodDeclaration,      *)
(*            EnterConstructorDeclaration, EnterExpression on each `return`, Exit...),   *)
(*            then evaluate.SummaryMethodIdentifier (IsStatic -> StringArrayContains),   *)
(*            the util-class loop of Analyser.Analysis and NullPointException.EvaluateList*)
(*  "concept" buildMethodsFromDeps: strcase.ToDelimited character loop, strings.Split,   *)
(*            FilterString, the counting map, removeNormalWords                          *)
(* One action per callback / loop body; variables are named after the real registers.    *)
(* Repaired = TRUE models the tree with C18-1..3 applied (linear StringArrayContains,    *)
(* IsReturnNull accumulated over the returns, every annotation modifier captured);       *)
(* Repaired = FALSE is the code as found (binary search on the unsorted modifier list,   *)
(* last return wins, only an annotation standing first is captured).                     *)
(* The Machine is judged by the same Reference operators that judge the real code.       *)
EXTENDS StatsRef, Integers, Json

CONSTANTS Part, Repaired,
          MaxCalls, Targets, WithOverload,          \* count part
          PreToks, MaxPre, RetKinds, MaxRets, MaxMembers, WithCtor,   \* eval part
          MaxPieces, MaxNames                       \* concept part

VARIABLES phase,          \* program counter of the part
          input,          \* the abstract input chosen so far (classes, unified JSON shape)
          \* ---- count
          model,          \* flat code model: Seq([pkg, cls, name, calls])
          projectMethods, \* BuildStringMethodMap: set of keys (map key -> key)
          callMap,        \* key -> Nat
          mi, ki,         \* loop indices: method, call
          rows,           \* printed rows
          \* ---- eval
          currentMethod,  \* identifier listener register
          functions,      \* currentNode.Functions
          ri,             \* index of the next return statement of the member being walked
          summary,        \* [classes, methods, statics, utils]
          nullableMap,    \* NullPointException.EvaluateList: set of keys
          \* ---- concept
          s, pos, n,      \* ToScreamingDelimited: input string, index, output so far
          words,          \* strings.Split result still to be counted
          strMap,         \* word -> Nat (as a set of <<word, count>> pairs would lose nothing; a function is used)
          ni              \* index of the name being segmented

vars == <<phase, input, model, projectMethods, callMap, mi, ki, rows, currentMethod, functions, ri,
          summary, nullableMap, s, pos, n, words, strMap, ni>>

\* the registers of the other two parts do not move (the phase names of the three parts are disjoint)
CountFrame   == UNCHANGED <<input, model, currentMethod, functions, ri, summary, nullableMap, s, pos, n, words, strMap, ni>>
EvalFrame    == UNCHANGED <<model, projectMethods, callMap, mi, ki, rows, s, pos, n, words, strMap, ni>>
ConceptFrame == UNCHANGED <<model, projectMethods, callMap, mi, ki, rows, currentMethod, functions, ri, summary, nullableMap>>

-----------------------------------------------------------------------------
(* ---------------------------------- count ---------------------------------- *)

M(p, c, f) == [pkg |-> p, cls |-> c, name |-> f]
Decl == IF WithOverload THEN <<M("p", "A", "f"), M("p", "A", "g"), M("p", "B", "f"), M("p", "A", "f")>>
                        ELSE <<M("p", "A", "f"), M("p", "A", "g"), M("p", "B", "f")>>
\* declared methods, a method the class does not declare, an external method, a creation, an unresolved receiver
AllTargets == <<M("p", "A", "f"), M("p", "A", "g"), M("p", "B", "f"), M("p", "A", "h"),
                M("x", "E", "e"), M("p", "B", ""), M("", "", "o")>>
TargetSet == {AllTargets[i] : i \in 1..Targets}
CallLists == UNION {[1..k -> TargetSet] : k \in 0..MaxCalls}

\* radix.SortSlice by key: byte order of the keys that can occur in the map (only declared keys can)
KeyOrder == <<"p.A.f", "p.A.g", "p.B.f">>

\* the unified input shape of a flat model: one class per (pkg, cls) in order of first appearance
ClassesOf(mdl) ==
  LET cls(i) == <<mdl[i].pkg, mdl[i].cls>>
      firsts == SelectSeq([i \in DOMAIN mdl |-> i], LAMBDA i : \A j \in 1..i - 1 : cls(j) # cls(i))
      mem(i) == [kind |-> "method", name |-> <<mdl[i].name>>, pre |-> <<>>, rets |-> <<>>, params |-> i - 1, calls |-> mdl[i].calls]
  IN  [k \in DOMAIN firsts |->
         [pkg |-> mdl[firsts[k]].pkg, name |-> <<mdl[firsts[k]].cls>>, kind |-> "class",
          members |-> LET idx == SelectSeq([i \in DOMAIN mdl |-> i], LAMBDA i : cls(i) = cls(firsts[k]))
                      IN  [q \in DOMAIN idx |-> mem(idx[q])]]]

InitCount ==
  /\ model \in {[i \in DOMAIN Decl |-> [pkg |-> Decl[i].pkg, cls |-> Decl[i].cls, name |-> Decl[i].name, calls |-> cl[i]]] :
                  cl \in [DOMAIN Decl -> CallLists]}
  /\ input = [classes |-> ClassesOf(model)]
  /\ phase = "map" /\ projectMethods = {} /\ callMap = <<>> /\ mi = 1 /\ ki = 1 /\ rows = <<>>

\* clz.BuildStringMethodMap(projectMethods): one map store per function
MapMethod ==
  /\ CountFrame
  /\ phase = "map" /\ mi <= Len(model)
  /\ projectMethods' = projectMethods \cup {DeclKey(model[mi])}
  /\ mi' = mi + 1
  /\ UNCHANGED <<phase, callMap, ki, rows>>
MapDone ==
  /\ CountFrame
  /\ phase = "map" /\ mi > Len(model)
  /\ phase' = "count" /\ mi' = 1 /\ ki' = 1
  /\ UNCHANGED <<projectMethods, callMap, rows>>

\* the innermost loop body: callMethod := call.BuildFullMethodName(); counted iff it is a project method
BuildFullMethodName(c) == IF c.name = "" THEN c.pkg \o "." \o c.cls ELSE c.pkg \o "." \o c.cls \o "." \o c.name
CountCall ==
  /\ CountFrame
  /\ phase = "count" /\ mi <= Len(model) /\ ki <= Len(model[mi].calls)
  /\ LET k == BuildFullMethodName(model[mi].calls[ki])
     IN  callMap' = IF k \in projectMethods
                    THEN (IF k \in DOMAIN callMap THEN [callMap EXCEPT ![k] = @ + 1] ELSE callMap @@ (k :> 1))
                    ELSE callMap
  /\ ki' = ki + 1
  /\ UNCHANGED <<phase, projectMethods, mi, rows>>
NextMethod ==
  /\ CountFrame
  /\ phase = "count" /\ mi <= Len(model) /\ ki > Len(model[mi].calls)
  /\ mi' = mi + 1 /\ ki' = 1
  /\ UNCHANGED <<phase, projectMethods, callMap, rows>>
\* SortWord + table rows
SortAndPrint ==
  /\ CountFrame
  /\ phase = "count" /\ mi > Len(model)
  /\ rows' = LET ks == SelectSeq(KeyOrder, LAMBDA k : k \in DOMAIN callMap) IN [r \in DOMAIN ks |-> <<ks[r], callMap[ks[r]]>>]
  /\ phase' = "done"
  /\ UNCHANGED <<projectMethods, callMap, mi, ki>>


CountObs == [panic |-> FALSE, note |-> "",
             count |-> [done |-> TRUE, rows |-> rows, rows2 |-> rows],
             eval |-> [done |-> FALSE], concept |-> [done |-> FALSE]]

\* conservation, also mid-way: the counts written so far add up to the resolving call sites already visited
Visited == {x \in Sites(model) : x[1] < mi \/ (x[1] = mi /\ x[2] < ki)}
C18_CountsConserved ==
  (Part = "count" /\ phase = "count") =>
     SumSeq([r \in 1..Len(KeyOrder) |-> IF KeyOrder[r] \in DOMAIN callMap THEN callMap[KeyOrder[r]] ELSE 0])
       = Cardinality({x \in Visited : LET c == model[x[1]].calls[x[2]] IN c.name # "" /\ CallKey(c) \in {DeclKey(model[i]) : i \in DOMAIN model}})
C18_CountReference ==
  (Part = "count" /\ phase = "done") => DiffCount([model |-> model, observed |-> CountObs]) = {}

-----------------------------------------------------------------------------
(* ----------------------------------- eval ---------------------------------- *)

IsAnn(t) == Ch(t, 1) = "@"
AnnName(t) == SubSeq(t, 2, Len(t))
Injective(q) == \A i, j \in DOMAIN q : i # j => q[i] # q[j]
PreSeqs == {q \in UNION {[1..k -> PreToks] : k \in 0..MaxPre} : Injective(q)}
RetSeqs == UNION {[1..k -> RetKinds] : k \in 0..MaxRets}
ClsName == <<"Order", "Util">>
\* two names (a plain one and a getter) so that class bodies with overloads and get*/set* methods are explored
MethodNames == IF MaxMembers > 1 THEN {<<"alpha">>, <<"get", "Beta">>} ELSE {<<"alpha">>}

Fresh == [name |-> "", annotations |-> <<>>, modifiers |-> <<>>, isReturnNull |-> FALSE, ctor |-> FALSE]

MemberChoices(k) ==
  {[kind |-> "method", name |-> nm, pre |-> p, rets |-> r, params |-> k - 1, calls |-> <<>>] : nm \in MethodNames, p \in PreSeqs, r \in RetSeqs} \cup
  (IF WithCtor THEN {[kind |-> "ctor", name |-> ClsName, pre |-> p, rets |-> <<>>, params |-> k - 1, calls |-> <<>>] :
                       p \in {q \in PreSeqs : Len(q) <= 1}} ELSE {})

InitEval ==
  /\ input = [classes |-> <<[pkg |-> "p", name |-> ClsName, kind |-> "class", members |-> <<>>]>>]
  /\ phase = "body" /\ currentMethod = Fresh /\ functions = <<>> /\ ri = 1
  /\ summary = [classes |-> 0, methods |-> 0, statics |-> 0, utils |-> 0] /\ nullableMap = {}

cur == input.classes[1].members[Len(input.classes[1].members)]

\* the walker reaches the next member of the class body (the member is chosen here: inputs are enumerated incrementally)
NewMember ==
  /\ EvalFrame
  /\ phase = "body" /\ Len(input.classes[1].members) < MaxMembers
  /\ \E m \in MemberChoices(Len(input.classes[1].members) + 1) :
       /\ input' = [input EXCEPT !.classes[1].members = Append(@, m)]
       /\ phase' = IF m.kind = "ctor" THEN "enterCtor" ELSE "enterMethod"
  /\ UNCHANGED <<currentMethod, functions, ri, summary, nullableMap>>

\* EnterMethodDeclaration: BuildAnnotationForMethod on the annotation modifier(s), then a fresh
\* CodeFunction that inherits currentMethod.Annotations and collects the non-annotation modifiers in source order
EnterMethodDeclaration ==
  /\ EvalFrame
  /\ phase = "enterMethod"
  /\ LET pre  == cur.pre
         anns == IF Repaired THEN SelectSeq(pre, IsAnn)
                 ELSE IF pre # <<>> /\ IsAnn(pre[1]) THEN <<pre[1]>> ELSE <<>>
         built == currentMethod.annotations \o [i \in DOMAIN anns |-> AnnName(anns[i])]
     IN  currentMethod' = [name |-> Concat(cur.name), annotations |-> built,
                           modifiers |-> SelectSeq(pre, LAMBDA t : ~IsAnn(t)), isReturnNull |-> FALSE, ctor |-> FALSE]
  /\ ri' = 1 /\ phase' = "stmts"
  /\ UNCHANGED <<input, functions, summary, nullableMap>>

\* EnterExpression whose parent is a `return` statement: strings.Contains(text, "null")
ContainsNullText(kind) == kind \in {"null"} \cup FreeNullKinds \cup MentionKinds
EnterReturnExpression ==
  /\ EvalFrame
  /\ phase = "stmts" /\ ri <= Len(cur.rets)
  /\ currentMethod' = [currentMethod EXCEPT !.isReturnNull =
                         IF Repaired THEN @ \/ ContainsNullText(cur.rets[ri]) ELSE ContainsNullText(cur.rets[ri])]
  /\ ri' = ri + 1
  /\ UNCHANGED <<input, phase, functions, summary, nullableMap>>

ExitMethodDeclaration ==
  /\ EvalFrame
  /\ phase = "stmts" /\ ri > Len(cur.rets)
  /\ functions' = Append(functions, currentMethod)
  /\ currentMethod' = Fresh
  /\ phase' = "body"
  /\ UNCHANGED <<input, ri, summary, nullableMap>>

\* EnterConstructorDeclaration: inherits currentMethod.Annotations, no modifiers, no annotation capture
EnterConstructorDeclaration ==
  /\ EvalFrame
  /\ phase = "enterCtor"
  /\ currentMethod' = [name |-> Concat(ClsName), annotations |-> currentMethod.annotations, modifiers |-> <<>>,
                       isReturnNull |-> FALSE, ctor |-> TRUE]
  /\ phase' = "exitCtor"
  /\ UNCHANGED <<input, functions, ri, summary, nullableMap>>
\* ExitConstructorDeclaration appends and does NOT reset currentMethod
ExitConstructorDeclaration ==
  /\ EvalFrame
  /\ phase = "exitCtor"
  /\ functions' = Append(functions, currentMethod)
  /\ phase' = "body"
  /\ UNCHANGED <<input, currentMethod, ri, summary, nullableMap>>

\* ExitClassBody, then Analyser.Analysis: the class loop (IsUtilClass on the lower-cased name)
ContainsUtil(str) == \E i \in 1..Len(str) - 3 : SubSeq(str, i, i + 3) = "util"
ExitClassBody ==
  /\ EvalFrame
  /\ phase = "body"
  /\ summary' = [summary EXCEPT !.classes = 1,
                                !.utils = IF ContainsUtil(LowerStr(Concat(input.classes[1].name))) THEN 1 ELSE 0]
  /\ phase' = "summary" /\ ri' = 1
  /\ UNCHANGED <<input, currentMethod, functions, nullableMap>>

\* sort.SearchStrings on the modifier list as it stands (byte order of the seven keywords)
Rank(t) == CASE t = "abstract" -> 1 [] t = "final" -> 2 [] t = "private" -> 3 [] t = "protected" -> 4
             [] t = "public" -> 5 [] t = "static" -> 6 [] t = "synchronized" -> 7 [] OTHER -> 0
RECURSIVE Search(_, _, _, _)
Search(a, x, i, j) == IF i >= j THEN i
                      ELSE LET h == (i + j) \div 2
                           IN  IF Rank(a[h + 1]) < Rank(x) THEN Search(a, x, h + 1, j) ELSE Search(a, x, i, h)
StringArrayContains(a, x) ==
  IF Repaired THEN \E i \in DOMAIN a : a[i] = x
  ELSE LET i == Search(a, x, 0, Len(a)) IN i < Len(a) /\ a[i + 1] = x

\* SummaryMethodIdentifier: loop body per function
SummaryMethod ==
  /\ EvalFrame
  /\ phase = "summary" /\ ri <= Len(functions)
  /\ summary' = [summary EXCEPT !.methods = @ + 1,
                                !.statics = IF StringArrayContains(functions[ri].modifiers, "static") THEN @ + 1 ELSE @]
  /\ ri' = ri + 1
  /\ UNCHANGED <<input, phase, currentMethod, functions, nullableMap>>
SummaryDone ==
  /\ EvalFrame
  /\ phase = "summary" /\ ri > Len(functions)
  /\ phase' = "nullable" /\ ri' = 1
  /\ UNCHANGED <<input, currentMethod, functions, summary, nullableMap>>

\* NullPointException.EvaluateList: loop body per function (map keyed by pkg.Class.method)
NullableMethod ==
  /\ EvalFrame
  /\ phase = "nullable" /\ ri <= Len(functions)
  /\ LET f == functions[ri]
         key == "p." \o Concat(ClsName) \o "." \o f.name
     IN  nullableMap' = IF f.isReturnNull \/ \E i \in DOMAIN f.annotations : f.annotations[i] \in {"Nullable", "CheckForNull"}
                        THEN nullableMap \cup {key} ELSE nullableMap
  /\ ri' = ri + 1
  /\ UNCHANGED <<input, phase, currentMethod, functions, summary>>
NullableDone ==
  /\ EvalFrame
  /\ phase = "nullable" /\ ri > Len(functions)
  /\ phase' = "done"
  /\ UNCHANGED <<input, currentMethod, functions, ri, summary, nullableMap>>


SetToSeq(S) == LET RECURSIVE Go(_)
                   Go(T) == IF T = {} THEN <<>> ELSE LET x == CHOOSE y \in T : TRUE IN <<x>> \o Go(T \ {x})
               IN  Go(S)
EvalObs == [panic |-> FALSE, note |-> "", count |-> [done |-> FALSE], concept |-> [done |-> FALSE],
            eval |-> [done |-> TRUE, classes |-> summary.classes, methods |-> summary.methods, statics |-> summary.statics,
                      utils |-> summary.utils, listed |-> TRUE, nullable |-> SetToSeq(nullableMap),
                      nullableCount |-> Cardinality(nullableMap)]]
EvalRec == [input |-> [src |-> "java", via |-> "api", classes |-> input.classes], observed |-> EvalObs]

EvalItems == IF Part = "eval" /\ phase = "done" THEN DiffEval(EvalRec) ELSE {}
Untagged(items) == {it \in items : it.tags = {}}
Kinds(items) == {it.kind : it \in items}

\* static is static wherever it stands in the modifier list
C18_StaticIsPermutationInvariant == "summary-static-methods" \notin Kinds(EvalItems)
\* the nullable list is exactly the methods that return the null literal on some path or are annotated, each once
\* (a listed method that only MENTIONS null in a return is the tagged known finding)
C18_NullableExactOnce == Kinds(Untagged(EvalItems)) \cap {"nullable-missing", "nullable-not-nullable-listed", "nullable-listed-twice"} = {}
C18_SummaryNumbers == Kinds(EvalItems) \cap {"summary-classes", "summary-methods", "summary-utility-classes"} = {}
\* mid-way: between two members the listener register carries nothing of the previous method that a method could inherit
C18_NoStaleMethodState == (Part = "eval" /\ phase = "body") => (currentMethod.annotations = <<>> /\ ~currentMethod.isReturnNull)

-----------------------------------------------------------------------------
(* --------------------------------- concept --------------------------------- *)

Firsts == {"get", "user", "x"}
Laters == {"Name", "Id", "X", "URL"}
NameChoices == {q \in UNION {[1..k -> Firsts \cup Laters] : k \in 1..MaxPieces} :
                  /\ \A i \in DOMAIN q : (q[i] \in Firsts) <=> (i = 1)
                  /\ ~Ambiguous(q)}
\* the part of the shipped stop-word tables that meets this vocabulary
McStop == <<"get", "id", "of", "name">>

InitConcept ==
  /\ input = [classes |-> <<[pkg |-> "p", name |-> <<"Order">>, kind |-> "class", members |-> <<>>]>>]
  /\ phase = "names" /\ s = "" /\ pos = 1 /\ n = "" /\ words = <<>> /\ strMap = <<>> /\ ni = 0

\* buildMethodsFromDeps collects the next method name (chosen here)
NewName ==
  /\ ConceptFrame
  /\ phase = "names" /\ ni < MaxNames
  /\ \E q \in NameChoices :
       /\ input' = [input EXCEPT !.classes[1].members =
                      Append(@, [kind |-> "method", name |-> q, pre |-> <<>>, rets |-> <<>>, params |-> ni, calls |-> <<>>])]
       /\ s' = Concat(q)        \* addWordBoundariesToNumbers is the identity: the vocabulary has no digits
  /\ ni' = ni + 1 /\ pos' = 1 /\ n' = "" /\ phase' = "delimit"
  /\ UNCHANGED <<words, strMap>>

\* ToScreamingDelimited, one iteration of `for i, v := range s`
DelimitChar ==
  /\ ConceptFrame
  /\ phase = "delimit" /\ pos <= Len(s)
  /\ LET v == Ch(s, pos)
         nextCaseIsChanged ==
           /\ pos + 1 <= Len(s)
           /\ LET nx == Ch(s, pos + 1)
              IN  (v \in UpperChars /\ nx \in LowerChars) \/ (v \in LowerChars /\ nx \in UpperChars)
     IN  n' = IF pos > 1 /\ Ch(n, Len(n)) # "." /\ nextCaseIsChanged
              THEN (IF v \in UpperChars THEN n \o "." \o v ELSE n \o v \o ".")
              ELSE IF v \in {" ", "_", "-"} THEN n \o "." ELSE n \o v
  /\ pos' = pos + 1
  /\ UNCHANGED <<input, phase, s, words, strMap, ni>>

\* strings.ToLower + strings.Split(delimited, ".")
RECURSIVE SplitDots(_, _, _)
SplitDots(str, i, acc) == IF i > Len(str) THEN <<acc>>
                          ELSE IF Ch(str, i) = "." THEN <<acc>> \o SplitDots(str, i + 1, "")
                          ELSE SplitDots(str, i + 1, acc \o Ch(str, i))
SplitName ==
  /\ ConceptFrame
  /\ phase = "delimit" /\ pos > Len(s)
  /\ words' = SplitDots(LowerStr(n), 1, "")
  /\ phase' = "words"
  /\ UNCHANGED <<input, s, pos, n, strMap, ni>>

\* loop body over the split words: FilterString drops "" and digit runs, the rest is counted
CountWord ==
  /\ ConceptFrame
  /\ phase = "words" /\ words # <<>>
  /\ LET w == Head(words)
     IN  strMap' = IF w = "" \/ IsDigits(w) THEN strMap
                   ELSE IF w \in DOMAIN strMap THEN [strMap EXCEPT ![w] = @ + 1] ELSE strMap @@ (w :> 1)
  /\ words' = Tail(words)
  /\ UNCHANGED <<input, phase, s, pos, n, ni>>
WordsDone ==
  /\ ConceptFrame
  /\ phase = "words" /\ words = <<>>
  /\ phase' = "names"
  /\ UNCHANGED <<input, s, pos, n, words, strMap, ni>>

\* removeNormalWords + SortWord (the order of the rows is not part of the property: any order)
RemoveNormalWords ==
  /\ ConceptFrame
  /\ phase = "names" /\ ni >= 1
  /\ strMap' = [w \in DOMAIN strMap \ Range(McStop) |-> strMap[w]]
  /\ phase' = "done"
  /\ UNCHANGED <<input, s, pos, n, words, ni>>


ConceptObs == [panic |-> FALSE, note |-> "", count |-> [done |-> FALSE], eval |-> [done |-> FALSE],
               concept |-> [done |-> TRUE, rows |-> LET ws == SetToSeq(DOMAIN strMap) IN [r \in DOMAIN ws |-> <<ws[r], strMap[ws[r]]>>]]]
ConceptRec == [input |-> [src |-> "model", via |-> "api", classes |-> input.classes], facts |-> [stop |-> McStop], observed |-> ConceptObs]

\* the counts sum to the number of non-stop words of the names (tagged: the known glued-head shape)
C18_ConceptSum == (Part = "concept" /\ phase = "done") => Untagged(DiffConcept(ConceptRec)) = {}
\* the same without the excuse: used by hand (Stats_MC_concept_untagged.cfg) to let TLC exhibit the defect shape
C18_ConceptSumStrict == (Part = "concept" /\ phase = "done") => DiffConcept(ConceptRec) = {}

-----------------------------------------------------------------------------

Idle == /\ model = <<>> /\ projectMethods = {} /\ callMap = <<>> /\ mi = 0 /\ ki = 0 /\ rows = <<>>
IdleEval == /\ currentMethod = Fresh /\ functions = <<>> /\ ri = 0
            /\ summary = [classes |-> 0, methods |-> 0, statics |-> 0, utils |-> 0] /\ nullableMap = {}
IdleConcept == /\ s = "" /\ pos = 0 /\ n = "" /\ words = <<>> /\ strMap = <<>> /\ ni = 0

Init == CASE Part = "count"   -> InitCount /\ IdleEval /\ IdleConcept
          [] Part = "eval"    -> InitEval /\ Idle /\ IdleConcept
          [] Part = "concept" -> InitConcept /\ Idle /\ IdleEval

Finished == phase = "done"
Done == Finished /\ UNCHANGED vars

Next == \/ MapMethod \/ MapDone \/ CountCall \/ NextMethod \/ SortAndPrint
        \/ NewMember \/ EnterMethodDeclaration \/ EnterReturnExpression \/ ExitMethodDeclaration
        \/ EnterConstructorDeclaration \/ ExitConstructorDeclaration \/ ExitClassBody
        \/ SummaryMethod \/ SummaryDone \/ NullableMethod \/ NullableDone
        \/ NewName \/ DelimitChar \/ SplitName \/ CountWord \/ WordsDone \/ RemoveNormalWords
        \/ Done

Spec == Init /\ [][Next]_vars

\* generation: every explored abstract input becomes a replay case for the real code
\* (with the Machine's own report: compared with the real code's report as a drift note, never a verdict)
MachineObs == CASE Part = "count"   -> [rows |-> rows]
                [] Part = "eval"    -> [classes |-> summary.classes, methods |-> summary.methods, statics |-> summary.statics,
                                        utils |-> summary.utils, nullable |-> SetToSeq(nullableMap)]
                [] Part = "concept" -> [rows |-> ConceptObs.concept.rows]
Emit == Finished => PrintT(<<"CASE", ToJson([part |-> Part, input |-> input, machine |-> MachineObs])>>)

=============================================================================
