\* NOT part of the check: the Machine with the three switches set to the algorithms as they were BEFORE the
\* proposed repairs C20-1, C20-2, C20-4. TLC finds the defects in the Machine itself:
\*   C20_GoMapOwnNames / C20_GoDeclsExact (two TypeSpecs alias one struct), C20_NoCrash (method before its type),
\*   C20_GoDeclsExact (`x, y int` lists only x), C20_PyDeclsExact (`import a, b as c` lists "basc").
\* Run by hand with -continue to enumerate all violating end states.
SPECIFICATION Spec
CONSTANTS
  Langs = {"go", "py"}
  Detail = "structure"
  MaxDecls = 3
  MaxImports = 1
  Wide = TRUE
  SharedCell = TRUE
  FirstNameOnly = TRUE
  GlueImportAs = TRUE
INVARIANTS C20_NoCrash C20_GoDeclsExact C20_PyDeclsExact C20_GoMapOwnNames C20_PyNoStaleClass
