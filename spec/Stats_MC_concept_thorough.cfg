\* thorough, concept part: <= 2 method names of <= 4 pieces
SPECIFICATION Spec
CONSTANTS
  Part = "concept"
  Repaired = TRUE
  MaxCalls = 0
  Targets = 3
  WithOverload = FALSE
  PreToks = {"public", "private", "protected", "static", "final", "abstract", "synchronized"}
  MaxPre = 0
  RetKinds = {"null"}
  MaxRets = 0
  MaxMembers = 1
  WithCtor = FALSE
  MaxPieces = 4
  MaxNames = 2
INVARIANTS C18_CountsConserved C18_CountReference C18_StaticIsPermutationInvariant C18_NullableExactOnce C18_SummaryNumbers C18_NoStaleMethodState C18_ConceptSum Emit
