SPECIFICATION Spec
CONSTANTS
  MaxFiles = 2
  MaxMethods = 2
  MaxStmts = 2
  MaxFields = 1
VIEW View
INVARIANTS C02_ReceiverResolved Emit
PROPERTY C07_ScopeReset
