\* quick: every Java tree over 12 candidate members (test names, a name containing "testData", an ignored directory, a
\* directory named like a Java file, a src/test/java root, a testData directory) x the walkers code and test x the root named
\* "." and "w/proj" x every .gitignore of <= 1 line over 5 lines (or none); the repaired settings (X07-1..3.patch)
SPECIFICATION Spec
CONSTANTS
  Universe <- UniverseJavaQuick
  Walkers = {"code", "test"}
  Roots <- RootsQuick
  Patterns <- PatternsQuick
  MaxLines = 1
  PathBase = "relative"
  TestDataTest = "directory"
  DirTest = "isdir"
INVARIANTS X07_Exact X07_Slice Emit
