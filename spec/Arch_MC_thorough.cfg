\* thorough, analysis-centred: every model of 2 or 3 types out of {a.A, a.Main, b.AMain, C (unnamed package)}, at most one
\* relation item per class over all 6 kinds x 5 targets, x {none, H, P, HP}, no filter (cases are not emitted: see the Gen cfgs)
SPECIFICATION Spec
CONSTANTS
  Universe <- U_analysis
  MinTypes = 2
  MaxTypes = 3
  Kinds = {"impl", "bare", "ext", "field", "call", "maincall"}
  MaxRel = 1
  Externals <- X_std
  Modes = {"none", "H", "P", "HP"}
  Filters <- F_all
  FixKey = TRUE
  FixLeaving = TRUE
  FixRegister = TRUE
INVARIANTS C13_NodesExact C13_EdgesExact C13_QuotientExact C13_DotEdgesBetweenDisplayed C13_EachTypeOnce C13_Reference
           C13_MergeNoSelfLoop C13_MergeBetweenNodes
