\* moves: <= 3 commits on one file of <= 4 lines, a new file has <= 3 lines; a line taken out and put back two or more lines away
SPECIFICATION Spec
CONSTANTS
  MaxCommits = 3
  MaxLines = 4
  MaxNew = 3
  FilePoolName = "one"
  Kinds = {"code", "todo"}
  Moves = TRUE
  RangeEnd = "line"
  PrettyArg = "plain"
INVARIANTS X09_Details X09_LogLine X09_WalkIsStamp X09_OpenIsTag X09_SameTree Emit
