\* thorough: every text of <= 5 cells over the 14-cell alphabet
SPECIFICATION Spec
CONSTANTS
  MaxLen = 5
  Starts <- StartsNone
  Alphabet <- AlphaBase
  Files <- FilesQuick
  FilterLists <- FiltersQuick
  HashStrip = 1
INVARIANTS C17_NoCrashOnAnyShape C17_ReportedExact C17_LineCounter Emit
