\* pair: one or two projects in one process (the same class names in both), Analysis once or twice per project
SPECIFICATION Spec
CONSTANTS
  Pool = "pair"
  NameRule = "file"
  CopyNode = TRUE
  KeepCR = TRUE
INVARIANTS X01_MovedExactly X01_NoCrash X01_OtherProjectsUntouched X01_TablesNotMixed Emit
