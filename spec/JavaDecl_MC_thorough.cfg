SPECIFICATION Spec
CONSTANTS MaxMembers = 3
INVARIANTS C01_IdentExact C01_FullExact Emit
