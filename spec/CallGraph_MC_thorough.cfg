\* thorough: call lists of length <= 2 over declared + external + unresolved + creation callees
\* (29791 models) x 4 roots x {call twice, rcall twice, call -l / rcall / call -l}
SPECIFICATION Spec
CONSTANTS
  MaxCalls = 2
  WithExt = TRUE
  WithDI = FALSE
  Kinds = {"call", "rcall", "lookup"}
INVARIANTS C03_EdgeSound C03_BudgetBound C04_EdgeSound C03_C04_Reference C07_SameTwice Emit
