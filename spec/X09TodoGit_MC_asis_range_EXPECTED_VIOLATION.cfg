\* the shipped line range alone (format repaired): the Machine violates X09_Details and X09_LogLine with a history in which a later
\* commit changes a line BELOW the comment (shortest: a file with a TODO line, then a line inserted after it).
SPECIFICATION Spec
CONSTANTS
  MaxCommits = 3
  MaxLines = 3
  MaxNew = 2
  FilePoolName = "one"
  Kinds = {"code", "todo"}
  Moves = FALSE
  RangeEnd = "open"
  PrettyArg = "plain"
INVARIANTS X09_Details X09_LogLine X09_WalkIsStamp X09_OpenIsTag X09_SameTree
