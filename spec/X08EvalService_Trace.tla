------------------------ MODULE X08EvalService_Trace ------------------------
(* Trace validation: every line of trace.ndjson is one history of Analysis calls made in a  *)
(* fresh process on the real evaluate.Analyser (in-process on synthesized models, on models *)
(* produced by the real Java passes, or one call through `coca evaluate`);                  *)
(* Diff (X08EvalServiceRef) is the oracle.  Never blocks: each discrepancy is printed and   *)
(* the rest of the trace is still checked.                                                  *)
EXTENDS X08EvalServiceRef, Json
VARIABLE l
Trace == ndJsonDeserialize("trace.ndjson")
Init == l = 1
Step == /\ l <= Len(Trace)
        /\ LET d == Diff(Trace[l])
           IN  IF d = {} THEN TRUE ELSE PrintT(<<"DIFF", l, ToJson(d)>>)
        /\ l' = l + 1
Spec == Init /\ [][Step]_l
Accepted == TLCGet("stats").diameter - 1 = Len(Trace)
=============================================================================
