\* quick: the code AS IT IS; <= 2 APIs over 3 URIs x 3 handlers of the model 'shop' (a package app. and a sub-package ..webapp.), --sort on/off, four -r lists, --aggregate off / "/a".  Discrepancies must carry the tag of the listed defect shape.
SPECIFICATION Spec
CONSTANTS
  Cmd = "api"
  ModelPool = "shop"
  UriPool = "ab"
  RemovePool = "shop"
  MaxApis = 2
  RemoveForm = "anywhere"
  CsvForm = "joined"
INVARIANTS X05_OutputExactOrTagged X05_FilterKeepsOrder X05_SortIsAPermutation X05_OneRowPerApi Emit
