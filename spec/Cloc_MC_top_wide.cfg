\* thorough, top-file: <= 1 sub-directory out of {.git, .idea, east, tea} x 3 languages x 6 file options
\* (zero-line files, ties); --top-size 1/3; filters none / go
SPECIFICATION Spec
CONSTANTS
  Shape = "top3"
  Roots = {"tree", "w/tree"}
  ExtFilters = {"none", "go"}
  Tops = {1, 3}
  Stride = 2
INVARIANTS C16_RowPerDirectory C16_CellsExact C16_SummaryIsSum C16_AgreesWithBase C16_RunTargetsCurrentDir
           C16_TopSortedTruncated C16_TopJsonExact Emit
