-------------------------- MODULE DeterminismRef --------------------------
(* Property-level Reference for C08: every run of the same command on the same input  *)
(* produces the same report as a collection, and the same sequence wherever the        *)
(* report promises an order and the sort key of a position is not tied.                *)
(* rec.reports : Seq([name, ordered, runs : Seq([items : Seq(STRING), keys : Seq(Int)])])*)
(* (items are canonical strings: the order of functions inside a type and the order of *)
(* changes inside a commit are canonicalised away by the projector, as the statement   *)
(* allows; everything else is compared as observed).                                   *)
EXTENDS Naturals, Sequences, FiniteSets, TLC

Range(s) == {s[i] : i \in DOMAIN s}
Bag(s) == [x \in Range(s) |-> Cardinality({i \in DOMAIN s : s[i] = x})]
Item(p, k, w, t) == [prop |-> p, kind |-> k, where |-> w, tags |-> t]

Untied(keys, p) == \A q \in DOMAIN keys : q # p => keys[q] # keys[p]

DiffReport(r) ==
  LET base == r.runs[1]
      collBad == {i \in DOMAIN r.runs : Bag(r.runs[i].items) # Bag(base.items)}
      orderBad == IF ~r.ordered THEN {}
                  ELSE {i \in DOMAIN r.runs \ collBad :
                          \/ Len(r.runs[i].keys) # Len(base.keys)
                          \/ \E p \in DOMAIN base.keys : Untied(base.keys, p) /\ r.runs[i].items[p] # base.items[p]}
  IN  (IF collBad = {} THEN {} ELSE {Item("C08", "collection-differs-between-runs", r.name \o " runs " \o ToString(collBad), {})}) \cup
      (IF orderBad = {} THEN {} ELSE {Item("C08", "promised-order-differs-between-runs", r.name \o " runs " \o ToString(orderBad), {})})

Diff(rec) ==
  IF rec.panic THEN {Item("C08", "panic", rec.note, {})}
  ELSE UNION {DiffReport(rec.reports[k]) : k \in DOMAIN rec.reports}
=============================================================================
