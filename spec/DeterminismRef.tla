-------------------------- MODULE DeterminismRef --------------------------
(* Property-level Reference for C08: every run of the same command on the same input  *)
(* produces the same report as a collection, and the same sequence wherever the        *)
(* report promises an order and the sort key of a position is not tied.                *)
(* rec.reports : Seq([name, ordered, runs : Seq([items : Seq(STRING), keys : Seq(Int)])])*)
(* (items are canonical strings: the order of functions inside a type and the order of *)
(* changes inside a commit are canonicalised away by the projector, as the statement   *)
(* allows; everything else is compared as observed).                                   *)
EXTENDS Naturals, Sequences, FiniteSets, TLC

Range(s) == {s[i] : i \in DOMAIN s}
Bag(s) == [x \in Range(s) |-> Cardinality({i \in DOMAIN s : s[i] = x})]
Item(p, k, w, t) == [prop |-> p, kind |-> k, where |-> w, tags |-> t]

Untied(keys, p) == \A q \in DOMAIN keys : q # p => keys[q] # keys[p]

\* runs = one fresh OS process each; inproc = the same API call repeated inside one process. All are compared with the
\* first fresh run. A difference that only shows up under in-process repetition is reported as such; for the
\* graphConnectedCall smell it is the known accumulation inside the vendored bad-smell-analysis library (tag).
Bad(r, rs, base) ==
  LET collBad == {i \in DOMAIN rs : Bag(rs[i].items) # Bag(base.items)}
      orderBad == IF ~r.ordered THEN {}
                  ELSE {i \in DOMAIN rs \ collBad :
                          \/ Len(rs[i].keys) # Len(base.keys)
                          \/ \E p \in DOMAIN base.keys : Untied(base.keys, p) /\ rs[i].items[p] # base.items[p]}
  IN  [coll |-> collBad, order |-> orderBad]

DiffReport(r) ==
  LET base == r.runs[1]
      f == Bad(r, r.runs, base)
      g == Bad(r, r.inproc, base)
      tags == IF r.name \in {"bad-smells-graphConnectedCall", "bad-smells-sorted-graphConnectedCall"} THEN {"bs.graphConnectedCall.in-process-repetition"} ELSE {}
  IN  (IF f.coll = {} THEN {} ELSE {Item("C08", "collection-differs-between-runs", r.name \o " runs " \o ToString(f.coll), {})}) \cup
      (IF f.order = {} THEN {} ELSE {Item("C08", "promised-order-differs-between-runs", r.name \o " runs " \o ToString(f.order), {})}) \cup
      (IF g.coll = {} THEN {} ELSE {Item("C08", "collection-differs-on-repetition-in-one-process", r.name \o " repetitions " \o ToString(g.coll), tags)}) \cup
      (IF g.order = {} THEN {} ELSE {Item("C08", "promised-order-differs-on-repetition-in-one-process", r.name \o " repetitions " \o ToString(g.order), tags)})

Diff(rec) ==
  IF rec.panic THEN {Item("C08", "panic", rec.note, {})}
  ELSE UNION {DiffReport(rec.reports[k]) : k \in DOMAIN rec.reports}
=============================================================================
