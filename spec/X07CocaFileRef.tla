--------------------------- MODULE X07CocaFileRef ---------------------------
(* Property-level Reference for the extension X07: the file walkers behind every         *)
(* analysis (pkg/adapter/cocafile: GetFilesWithFilter, GetJavaFiles, GetJavaTestFiles,    *)
(* the exported filter predicates, the root .gitignore).  Reached by every command that   *)
(* takes a path: `coca analysis`, `bs`, `api`, `tbs`, `todo`, `deps`, `refactor`, ...     *)
(*                                                                                        *)
(* STATEMENT (what a user who points coca at a directory relies on).  For any directory   *)
(* tree and any way of naming its root (".", a relative path, an absolute path), a        *)
(* walker returns                                                                         *)
(*   (1) exactly the regular files of the tree that its predicate selects, that the       *)
(*       .gitignore file at the root does not ignore, and that do not lie below a         *)
(*       directory called testData (coca's convention for fixture trees);                 *)
(*   (2) each once, as root-path "/" relative-path;                                       *)
(*   (3) never a directory;                                                               *)
(*   (4) in an order that depends on the tree only (asking twice gives the same list).    *)
(* Predicates (on the file NAME, a directory name never selects anything below it         *)
(* except for the test root):                                                             *)
(*   java    name ends with ".java"                 (JavaFileFilter)                      *)
(*   test    java, and the name ends with "Test.java" or "Tests.java" or the file lies     *)
(*           below a src/test/java directory        (JavaTestFileFilter, GetJavaTestFiles)*)
(*   code    java and not test                      (JavaCodeFileFilter, GetJavaFiles)    *)
(*   go, py, ts   name ends with ".go" / ".py" / ".ts"                                    *)
(*   pom, gradle  the file is called pom.xml / build.gradle                               *)
(* Root .gitignore, read as git documents it: blank lines and lines starting with "#"     *)
(* select nothing; `name` ignores every file or directory of that name, and everything    *)
(* below such a directory; `name/` the same for directories only; `*suffix` every name    *)
(* with that ending; `/a/b` exactly that path below the root; a leading "!" takes back    *)
(* what earlier lines ignored; the last line that applies decides.                        *)
(*                                                                                        *)
(* Quantifier: trees of directories, regular files and symbolic links, names without      *)
(* "/" and line breaks; the root is a directory (a root that is a regular file or does    *)
(* not exist is outside).                                                                 *)
(*                                                                                        *)
(* Written from this statement, not from the code.  Pure operators over the record:       *)
(*   rec.input  : [via, walker, above : Seq(name), root : name, addrs : Seq(addr),        *)
(*                 entries : Seq([path : Seq(name), kind]),  kind in file | dir |          *)
(*                           linkfile | linkdir | deadlink; every directory is an entry   *)
(*                 ignore : [present, crlf, lines : Seq([t, neg, name, path])]]           *)
(*                 t in comment | blank | name | dir | suffix | rooted                    *)
(*                 addr in dot (cwd = root, ".") | rel (cwd above, "above/root") |        *)
(*                         relslash ("above/root/") | abs (absolute path)                 *)
(*   rec.facts  : [base : Seq(name)] the directories above `above` (absolute scratch dir) *)
(*   rec.observed : [panic, runs : Seq([addr, panic, files : Seq(String), again])]         *)
(*                 files = the returned paths made relative to the root, "/"-separated    *)
(*                 ("." is the root itself)                                               *)
(*                                                                                        *)
(* Where the statement is silent:                                                         *)
(*   Free_X07_Symlink     a symbolic link to a regular file, or a dangling one, whose     *)
(*                  name is selected may be returned or not; links to directories are     *)
(*                  directories (never returned; whether they are entered is not asked:   *)
(*                  the trees have nothing below them).                                   *)
(*   Free_X07_NegationBelowIgnoredDir   git keeps a file ignored when one of its parent   *)
(*                  directories is ignored, whatever a later "!" line says; a reader      *)
(*                  that lets the last applicable line decide differs there.  Both        *)
(*                  readings are accepted (a file is required iff both return it,         *)
(*                  forbidden iff both ignore it).                                        *)
(*   Free_X07_TestDataAbove   a directory called testData ABOVE (or as) the root: free.   *)
(*   Free_X07_TestRoot    src/test/java that starts above the root, or whose first        *)
(*                  directory merely ends with "src" ("websrc/test/java"): the file may   *)
(*                  count as test or as code.                                             *)
(*   Free_X07_PomSuffix   a file whose name merely ends with pom.xml / build.gradle       *)
(*                  ("dependency-reduced-pom.xml") may be returned or not.                *)
(*   Free_X07_Order       any order, the same on the second request.                      *)
EXTENDS Integers, Sequences, FiniteSets, TLC

Range(s) == {s[i] : i \in DOMAIN s}

EndsWith(s, t) == Len(s) >= Len(t) /\ SubSeq(s, Len(s) - Len(t) + 1, Len(s)) = t
Contains(s, t) == \E i \in 1..(Len(s) - Len(t) + 1) : SubSeq(s, i, i + Len(t) - 1) = t

RECURSIVE JoinFrom(_, _)
JoinFrom(p, i) == IF i > Len(p) THEN "" ELSE IF i = Len(p) THEN p[i] ELSE p[i] \o "/" \o JoinFrom(p, i + 1)
Join(p) == JoinFrom(p, 1)
LastOf(p) == p[Len(p)]
Prefix(p, n) == SubSeq(p, 1, n)

-----------------------------------------------------------------------------
(* the tree *)

KindOf(in, p) == LET hit == {i \in DOMAIN in.entries : in.entries[i].path = p}
                 IN  IF hit = {} THEN "none" ELSE in.entries[CHOOSE i \in hit : TRUE].kind
IsDirKind(k) == k \in {"dir", "linkdir"}

-----------------------------------------------------------------------------
(* the predicates *)

\* below a src/test/java directory that lies inside the tree
InTestRoot(p) == \E i \in 1..(Len(p) - 3) : p[i] = "src" /\ p[i + 1] = "test" /\ p[i + 2] = "java"
\* Free_X07_TestRoot: the same three directories, looked for in the whole path from the file system root, the first one
\* matched by its ending only
InLooseTestRoot(full) == \E i \in 1..(Len(full) - 3) : EndsWith(full[i], "src") /\ full[i + 1] = "test" /\ full[i + 2] = "java"

TestName(n) == EndsWith(n, "Test.java") \/ EndsWith(n, "Tests.java")
IsJava(n) == EndsWith(n, ".java")

\* "yes" | "no" | "free"
Selected(walker, above, p) ==
  LET n == LastOf(p)
      loose == InLooseTestRoot(above \o p)
      test == IF ~IsJava(n) THEN "no" ELSE IF TestName(n) \/ InTestRoot(p) THEN "yes" ELSE IF loose THEN "free" ELSE "no"
  IN  CASE walker = "java" -> IF IsJava(n) THEN "yes" ELSE "no"
        [] walker = "test" -> test
        [] walker = "code" -> IF ~IsJava(n) THEN "no" ELSE IF test = "yes" THEN "no" ELSE IF test = "free" THEN "free" ELSE "yes"
        [] walker = "go" -> IF EndsWith(n, ".go") THEN "yes" ELSE "no"
        [] walker = "py" -> IF EndsWith(n, ".py") THEN "yes" ELSE "no"
        [] walker = "ts" -> IF EndsWith(n, ".ts") THEN "yes" ELSE "no"
        [] walker = "pom" -> IF n = "pom.xml" THEN "yes" ELSE IF EndsWith(n, "pom.xml") THEN "free" ELSE "no"        \* Free_X07_PomSuffix
        [] walker = "gradle" -> IF n = "build.gradle" THEN "yes" ELSE IF EndsWith(n, "build.gradle") THEN "free" ELSE "no"

-----------------------------------------------------------------------------
(* the root .gitignore *)

Lines(in) == IF in.ignore.present THEN in.ignore.lines ELSE <<>>

\* does line L apply to the tree member q itself (q a path below the root, dir = it is a directory)
MatchSelf(L, q, dir) ==
  CASE L.t = "name" -> LastOf(q) = L.name
    [] L.t = "dir" -> LastOf(q) = L.name /\ dir
    [] L.t = "suffix" -> EndsWith(LastOf(q), L.name)
    [] L.t = "rooted" -> q = L.path
    [] OTHER -> FALSE                                      \* comment, blank

\* the members on the way to p: every proper prefix is a directory, p itself is what `dir` says
DirAt(p, n, dir) == IF n < Len(p) THEN TRUE ELSE dir
MatchAlong(L, p, dir) == \E n \in 1..Len(p) : MatchSelf(L, Prefix(p, n), DirAt(p, n, dir))

\* the last line for which `applies` holds decides; none: not ignored
LastDecides(lines, applies(_)) ==
  LET hit == {i \in DOMAIN lines : applies(lines[i])}
  IN  IF hit = {} THEN FALSE ELSE ~lines[CHOOSE i \in hit : \A j \in hit : j <= i].neg

\* git: a member is ignored if one of its parent directories is, else the last line that names the member itself decides
IgnoredSelf(lines, q, dir) == LET A(L) == MatchSelf(L, q, dir) IN LastDecides(lines, A)
IgnoredGit(lines, p, dir) == \E n \in 1..Len(p) : IgnoredSelf(lines, Prefix(p, n), DirAt(p, n, dir))
\* the flat reading: the last line that names the member or one of its parents decides
IgnoredFlat(lines, p, dir) == LET A(L) == MatchAlong(L, p, dir) IN LastDecides(lines, A)

\* "yes" (ignored) | "no" | "free" (Free_X07_NegationBelowIgnoredDir)
Ignored(in, p, dir) ==
  LET g == IgnoredGit(Lines(in), p, dir)
      f == IgnoredFlat(Lines(in), p, dir)
  IN  IF g /\ f THEN "yes" ELSE IF ~g /\ ~f THEN "no" ELSE "free"

-----------------------------------------------------------------------------
(* testData *)

BelowTestData(p) == \E i \in 1..(Len(p) - 1) : p[i] = "testData"
TestDataAbove(in) == "testData" \in Range(in.above) \cup {in.root}          \* Free_X07_TestDataAbove

-----------------------------------------------------------------------------
(* what a walker must / may / must not return *)

\* "must" | "may" | "mustnot" for a member of the tree
Verdict(in, p) ==
  LET k == KindOf(in, p)
      sel == Selected(in.walker, in.above \o <<in.root>>, p)
      ign == Ignored(in, p, FALSE)
  IN  IF k \notin {"file", "linkfile", "deadlink"} THEN "mustnot"                 \* (3), and what is not in the tree
      ELSE IF sel = "no" \/ ign = "yes" \/ BelowTestData(p) THEN "mustnot"
      ELSE IF k # "file" THEN "may"                                                \* Free_X07_Symlink
      ELSE IF sel = "free" \/ ign = "free" \/ TestDataAbove(in) THEN "may"
      ELSE "must"

Members(in) == {in.entries[i].path : i \in DOMAIN in.entries}
MustSet(in) == {Join(p) : p \in {q \in Members(in) : Verdict(in, q) = "must"}}
MaySet(in)  == {Join(p) : p \in {q \in Members(in) : Verdict(in, q) = "may"}}

-----------------------------------------------------------------------------
(* Known-defect shapes (spec-computed, narrow).  A tag that is not listed in             *)
(* known_findings.json changes nothing.  They depend on how the root was named: the      *)
(* directories the walker sees in front of the relative path.                            *)

Visible(in, facts, addr) ==
  CASE addr = "dot" -> <<>>
    [] addr \in {"rel", "relslash"} -> in.above \o <<in.root>>
    [] addr = "abs" -> facts.base \o in.above \o <<in.root>>

\* "testData" inside a longer name (LatestDataService.java, latestData/), in the tree or in the path to the root
TagTestDataSubstring == "cocafile.testdata.substring-of-a-name"
\* a line of the root .gitignore names a directory that lies ABOVE the root (or the root itself): plain, it ignores the
\* whole tree; negated, it takes back what earlier lines ignored
TagIgnoreAbove == "cocafile.gitignore.matches-above-the-root"
\* a "/rooted" line is compared with the path as the walker spells it, root path included
TagRooted == "cocafile.gitignore.rooted-line-needs-dot"
\* a directory whose name the predicate selects is returned as if it were a file
TagDirectory == "cocafile.directory-returned"

SubstringShape(vis, p) ==
  ~BelowTestData(p) /\ \E c \in Range(vis) \cup Range(p) : Contains(c, "testData")
\* line L names a directory in front of the relative path: by its name, or as a rooted line that spells the way to the root
AboveNames(L, vis) ==
  \/ L.t \in {"name", "dir"} /\ L.name \in Range(vis)
  \/ L.t = "suffix" /\ \E c \in Range(vis) : EndsWith(c, L.name)
RootedSpelled(L, vis, p) ==
  L.t = "rooted" /\ vis # <<>> /\ Len(L.path) <= Len(vis \o p) /\ Prefix(vis \o p, Len(L.path)) = L.path
\* such a line, plain (it ignores the whole tree) or negated (it takes back whatever earlier lines ignored)
AboveShape(in, vis, p, neg) ==
  \E i \in DOMAIN Lines(in) : LET L == Lines(in)[i] IN L.neg = neg /\ (AboveNames(L, vis) \/ RootedSpelled(L, vis, p))
RootedShape(in, vis, p) ==
  /\ vis # <<>>
  /\ \E i \in DOMAIN Lines(in) : Lines(in)[i].t = "rooted" /\ MatchAlong(Lines(in)[i], p, FALSE)

TagsMissing(in, facts, addr, p) ==
  LET vis == Visible(in, facts, addr)
  IN  (IF SubstringShape(vis, p) THEN {TagTestDataSubstring} ELSE {})
      \cup (IF AboveShape(in, vis, p, FALSE) THEN {TagIgnoreAbove} ELSE {})
      \cup (IF RootedShape(in, vis, p) THEN {TagRooted} ELSE {})
TagsSpurious(in, facts, addr, p) ==
  LET vis == Visible(in, facts, addr)
  IN  (IF RootedShape(in, vis, p) THEN {TagRooted} ELSE {})
      \cup (IF AboveShape(in, vis, p, TRUE) THEN {TagIgnoreAbove} ELSE {})

\* directories (and links to directories) with a selected name that nothing keeps a walker from reaching: not below
\* testData and not ignored when read as a plain member (a `name/` line names directories by the slash that follows
\* them in a longer path, so it does not name the directory itself)
SelectedDirs(in) ==
  {p \in Members(in) : /\ IsDirKind(KindOf(in, p))
                       /\ Selected(in.walker, in.above \o <<in.root>>, p) # "no"
                       /\ ~BelowTestData(p)
                       /\ ~IgnoredFlat(Lines(in), p, FALSE)}
\* the same directories whatever the .gitignore says about them (a command that dies on one of them, reached only because a
\* line did not apply, carries the tag of that line's defect)
NamedLikeFiles(in) ==
  {p \in Members(in) : IsDirKind(KindOf(in, p)) /\ Selected(in.walker, in.above \o <<in.root>>, p) # "no" /\ ~BelowTestData(p)}
RootSelected(in) == Selected(in.walker, in.above, <<in.root>>) # "no"

-----------------------------------------------------------------------------
(* Diff *)

Item(k, w, t) == [prop |-> "X07", kind |-> k, where |-> w, tags |-> t]

PathOf(in, s) == LET hit == {p \in Members(in) : Join(p) = s} IN IF hit = {} THEN <<>> ELSE CHOOSE p \in hit : TRUE

DiffRun(in, facts, run) ==
  LET obs == Range(run.files)
      w(s) == run.addr \o ": " \o s
  IN  IF run.panic
      THEN {Item("panic", run.addr, (IF SelectedDirs(in) # {} \/ RootSelected(in) THEN {TagDirectory} ELSE {})
                                     \cup UNION {TagsSpurious(in, facts, run.addr, p) : p \in NamedLikeFiles(in)})}
      ELSE
      \* (1) every file that must be returned is
      {Item("missing-file", w(s), TagsMissing(in, facts, run.addr, PathOf(in, s))) : s \in MustSet(in) \ obs}
      \* (1)(3) nothing else is
      \cup {Item("directory-returned", w(s), (IF PathOf(in, s) \in SelectedDirs(in) THEN {TagDirectory} ELSE {})
                                                \cup TagsSpurious(in, facts, run.addr, PathOf(in, s)))
              : s \in {x \in obs : PathOf(in, x) # <<>> /\ IsDirKind(KindOf(in, PathOf(in, x)))}}
      \cup {Item("directory-returned", w("."), IF RootSelected(in) THEN {TagDirectory} ELSE {}) : s \in obs \cap {"."}}
      \cup {Item("file-not-selected", w(s), TagsSpurious(in, facts, run.addr, PathOf(in, s)))
              : s \in {x \in obs : PathOf(in, x) # <<>> /\ ~IsDirKind(KindOf(in, PathOf(in, x)))
                                   /\ x \notin MustSet(in) \cup MaySet(in)}}
      \cup {Item("not-in-the-tree", w(s), {}) : s \in {x \in obs : x # "." /\ PathOf(in, x) = <<>>}}
      \* (2) each once
      \cup {Item("returned-twice", w(run.files[i]), {}) : i \in {j \in DOMAIN run.files : \E k \in DOMAIN run.files : k < j /\ run.files[k] = run.files[j]}}
      \* (4) the same list again
      \cup (IF run.files = run.again THEN {} ELSE {Item("second-request-differs", run.addr, {})})

Diff(rec) ==
  LET in == rec.input
      o == rec.observed
  IN  IF o.panic THEN {Item("panic", "", {})}
      ELSE UNION {DiffRun(in, rec.facts, o.runs[i]) : i \in DOMAIN o.runs}
           \cup (IF Len(o.runs) = Len(in.addrs) THEN {} ELSE {Item("runs-missing", "", {})})
=============================================================================
