\* annotations x layouts: every annotation shape (alone / together in either order / none / foreign),
\* every path kind (flat and Maven, test and production), bodies of <= 2 statements, 3 helper shapes
SPECIFICATION Spec
CONSTANTS
  MaxBody = 2
  Alphabet = {"print", "assertEq", "helper", "thisHelper", "plain", "new", "noise"}
  AnnoKinds = {"T", "Targ", "I", "TI", "IT", "none", "Before"}
  HelperKinds = {"none", "empty", "assert"}
  PathKinds = {"flatTest", "flatTests", "flatProd", "flatSub", "mavenTest", "mavenOther", "mavenMain", "mavenRootOnly"}
  Repaired = TRUE
INVARIANTS C11_FindingsExact C11_OnlyTestFiles C11_FileAttribution C11_LoopBounds Emit
