-------------------------- MODULE X05ApiTable_Trace --------------------------
(* Trace validation: every line of trace.ndjson is one synthesized coca_reporter            *)
(* (deps.json, apis.json) on which the coca binary ran `coca api -c` / `coca call -c root`    *)
(* once plain and once with the case's flags, each in its own process; Diff                  *)
(* (X05ApiTableRef) is the oracle.  Never blocks: each discrepancy is printed and the rest    *)
(* of the trace is still checked.                                                            *)
EXTENDS X05ApiTableRef, Json
VARIABLE l
Trace == ndJsonDeserialize("trace.ndjson")
Init == l = 1
Step == /\ l <= Len(Trace)
        /\ LET d == Diff(Trace[l])
           IN  IF d = {} THEN TRUE ELSE PrintT(<<"DIFF", l, ToJson(d)>>)
        /\ l' = l + 1
Spec == Init /\ [][Step]_l
Accepted == TLCGet("stats").diameter - 1 = Len(Trace)
=============================================================================
