\* thorough, unused report over TWO source files ("imported anywhere"): <= 2 declared dependencies over
\* 3 groups in both front-ends x every pair of source files of every type kind with one import each
SPECIFICATION Spec
CONSTANTS
  Repaired = TRUE
  Kinds = {"pom", "gradle"}
  MaxEntries = 2
  Groups = {"org.a", "org.ab", "io.x"}
  PomShapes = {2}
  Notations = {"sq", "project"}
  Variants = {"plain"}
  Confs = {"implementation"}
  SurroundLevel = 0
  SrcMax = 2
  ImpMax = 1
  Units = {"class", "interface", "enum", "annotation"}
  ExtraImports = {"java.util.List", "com.vendor.org.a.Thing", "org.abc.Other"}
INVARIANTS C19_NoPanic C19_ExtractedExact C19_PrefixExact C19_OtherNotationsSkipped C19_UnusedExact Emit
