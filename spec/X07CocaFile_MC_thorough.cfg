\* thorough: the Java trees of the quick configuration with every .gitignore of <= 2 lines over 5 lines, the walkers code and
\* test, roots below src/test, below testData, called nats.go and "."
SPECIFICATION Spec
CONSTANTS
  Universe <- UniverseJavaQuick
  Walkers = {"code", "test"}
  Roots <- RootsTest
  Patterns <- PatternsQuick
  MaxLines = 2
  PathBase = "relative"
  TestDataTest = "directory"
  DirTest = "isdir"
INVARIANTS X07_Exact X07_Slice Emit
