\* thorough, "structure" (Python): every module of <= 4 statements over the quick alphabet.
SPECIFICATION Spec
CONSTANTS
  Langs = {"py"}
  Detail = "structure"
  MaxDecls = 4
  MaxImports = 0
  Wide = FALSE
  SharedCell = FALSE
  FirstNameOnly = FALSE
  GlueImportAs = FALSE
INVARIANTS C20_NoCrash C20_GoDeclsExact C20_PyDeclsExact C20_GoMapOwnNames C20_PyNoStaleClass Emit
