-------------------------- MODULE X08EvalServiceRef --------------------------
(* Property-level Reference for the extension X08: the SERVICE SUMMARY of `coca evaluate`     *)
(* (evaluate.Analyser.Analysis(classNodes, identifiers).ServiceSummary, written to            *)
(* coca_reporter/evaluate.json; pkg/application/evaluate/evaluator/service.go).               *)
(*                                                                                           *)
(* STATEMENT.  For any model (a list of classes; each class has a package, a name and a      *)
(* list of functions; each function has a name, a return type as written, a constructor      *)
(* flag and a list of parameter names) and any sequence of Analysis calls in one process:    *)
(*   A class is a SERVICE iff its name contains "service", letter case ignored               *)
(*   (IsServiceClass; OrderService, ServiceImpl, MICROSERVICES).  Only services contribute.  *)
(*   (L) LifecycleMap.  A METHOD is a function that is not a constructor.  The FIRST WORD    *)
(*       of a method name is its first camel-case word by the convention of the splitter     *)
(*       the tool ships (fatih/camelcase, README): characters are lower-case letters,        *)
(*       upper-case letters, digits or others; a word is a maximal run of one kind, except   *)
(*       that when an upper-case run is followed by a lower-case run its last letter belongs *)
(*       to the lower-case run ("doSave" -> do; "GetName" -> Get; "HTTPServer" -> HTTP;       *)
(*       "do2Save" -> do; "_init" -> _).  A word w is a LIFECYCLE WORD of a service iff it   *)
(*       is the first word of at least two methods of that service and is not one of the     *)
(*       shipped technical stop words (constants.TechStopWords: get, set, create, ...).      *)
(*       LifecycleMap has exactly the lifecycle words of the services as keys; under w it    *)
(*       lists the name of every method with first word w of every service of which w is a   *)
(*       lifecycle word, once per method (overloads repeat the name).                        *)
(*   (R) ReturnTypeMap.  For every function of a service whose return type, as written, is   *)
(*       the name of a class of the model (service or not): "<package>.<class>.<function>"   *)
(*       is listed under that type name, once per function; nothing else is listed; the keys *)
(*       are exactly the type names with at least one entry.                                 *)
(*   (P) RelatedMethod.  The LONG-PARAMETER functions are the functions of services with at  *)
(*       least 4 parameters.  One transaction per such function = its parameter names.       *)
(*       RelatedMethod is empty iff no group of 4 names occurs together in at least 80% of   *)
(*       the transactions; otherwise it is a group of >= 4 distinct names that occur         *)
(*       together in at least 80% of the transactions.  (The miner itself and WHICH group    *)
(*       is X04's subject; here: what is fed into it and that its result is stored.)         *)
(*   (S) Every call is judged against ITS OWN model only: nothing of an earlier call (or of  *)
(*       an earlier class) may show in a later result, and a result already returned does    *)
(*       not change when a later call is made.                                               *)
(*                                                                                           *)
(* Where this comes from.  The evaluate README is empty on the subject; the repository's     *)
(* tests pin: LifecycleMap["do"] = [doSave, doUpdate] for one service; one ReturnTypeMap     *)
(* key for two methods returning a project class; RelatedMethod = the four shared parameter  *)
(* names of long-parameter methods.  The three lists above are what those tests and the      *)
(* field names promise, extended from "one service" to "the services" in the only way that   *)
(* loses nothing.                                                                            *)
(*                                                                                           *)
(* Decisions where the statement is silent (each named):                                     *)
(*   Free_X08_Order         the order of keys, and of the names under a key, is not stated:  *)
(*                          judged as bags.                                                  *)
(*   Free_X08_StopWordCase  a first word that equals a stop word only up to letter case      *)
(*                          ("Get", "GET") may be treated as a stop word or not.             *)
(*   Free_X08_BuiltinNamesake  a project class named like one of the built-in return types   *)
(*                          (String, int, float, void, char, double): its entries are free.  *)
(*   Free_X08_CtorParams    whether a constructor with >= 4 parameters is a long-parameter   *)
(*                          function is not stated: RelatedMethod is accepted if it is right *)
(*                          with or without the constructors' transactions.                  *)
(*   Free_X08_MinerInputs   a function with a repeated parameter name, or a parameter named  *)
(*                          STOP (X04's two known miner defects): RelatedMethod not judged.  *)
(*   Quantifier: names over ASCII letters, digits, `_`, `$` plus the letters listed in        *)
(*   LowerChars/UpperChars; class names are not empty.                                       *)
(*                                                                                           *)
(* Record (JSON shape shared by the TLC generator, the Go renderer and the validator):       *)
(*   rec.input : the abstract case [via, calls : Seq(Seq(class))] (not read here)            *)
(*   rec.runs  : Seq([model : Seq(class), observed : Sum, later : Sum])   one per call       *)
(*       class = [pkg, name, methods : Seq([name, ret, ctor, params : Seq(Str)])]            *)
(*               projection of the []CodeDataStruct actually handed to Analysis              *)
(*       Sum   = [panic, wellformed, lifecycle : Seq([word, methods : Seq(Str)]),            *)
(*                returns : Seq([type, methods : Seq(Str)]), related : Seq(Str)]             *)
(*       observed = projected right after the call; later = the same result projected again  *)
(*       after the last call of the process.                                                 *)
EXTENDS Integers, Sequences, FiniteSets, TLC

Range(s) == {s[i] : i \in DOMAIN s}

-----------------------------------------------------------------------------
(* characters and words (TLC evaluates \o, Len, SubSeq on strings) *)

UC == <<"A","B","C","D","E","F","G","H","I","J","K","L","M","N","O","P","Q","R","S","T","U","V","W","X","Y","Z","É","Ω">>
LC == <<"a","b","c","d","e","f","g","h","i","j","k","l","m","n","o","p","q","r","s","t","u","v","w","x","y","z","é","ω">>
UpperChars == Range(UC)
LowerChars == Range(LC)
DigitChars == {"0","1","2","3","4","5","6","7","8","9"}

Ch(s, i) == SubSeq(s, i, i)
Kind(c) == IF c \in LowerChars THEN "lower" ELSE IF c \in UpperChars THEN "upper" ELSE IF c \in DigitChars THEN "digit" ELSE "other"
LowerChar(c) == IF c \in UpperChars THEN LC[CHOOSE i \in DOMAIN UC : UC[i] = c] ELSE c
RECURSIVE LowerFrom(_, _)
LowerFrom(s, i) == IF i > Len(s) THEN "" ELSE LowerChar(Ch(s, i)) \o LowerFrom(s, i + 1)
LowerStr(s) == LowerFrom(s, 1)

\* last position of the run of one kind that starts at i
RECURSIVE RunEnd(_, _)
RunEnd(s, i) == IF i < Len(s) /\ Kind(Ch(s, i + 1)) = Kind(Ch(s, i)) THEN RunEnd(s, i + 1) ELSE i

\* the first camel-case word of a non-empty name
FirstWord(s) ==
  LET e == RunEnd(s, 1)
  IN  IF Kind(Ch(s, 1)) = "upper" /\ e < Len(s) /\ Kind(Ch(s, e + 1)) = "lower"
      THEN IF e = 1 THEN SubSeq(s, 1, RunEnd(s, 2))       \* "Get" of "GetName"
                    ELSE SubSeq(s, 1, e - 1)              \* "HTTP" of "HTTPServer"
      ELSE SubSeq(s, 1, e)

Contains(s, t) == \E i \in 1..(Len(s) - Len(t) + 1) : SubSeq(s, i, i + Len(t) - 1) = t

StopWords ==
  {"get", "create", "update", "delete", "save", "post", "add", "remove", "insert", "select", "exist", "find", "new",
   "parse", "set", "first", "last", "type", "key", "value", "equal", "greater", "all", "by", "id", "is", "of", "not",
   "with", "main", "status", "count", "equals", "start", "config", "sort", "handle", "handler", "internal", "cache",
   "request", "process", "parameter", "method", "class", "default", "object", "annotation", "read", "write", "bean",
   "message", "factory", "error", "errors", "exception", "null", "string", "init", "data", "hash", "convert", "size",
   "build", "return"}

Builtin == {"String", "int", "float", "void", "char", "double"}

-----------------------------------------------------------------------------
(* the statement *)

IsService(c) == Contains(LowerStr(c.name), "service")
Services(m) == {i \in DOMAIN m : IsService(m[i])}
ClassNames(m) == {m[i].name : i \in DOMAIN m}

\* (L)  ctors = TRUE reads constructors as methods (used by the tag predicates only)
MethodsOf(c, ctors) == {k \in DOMAIN c.methods : c.methods[k].name # "" /\ (ctors \/ ~c.methods[k].ctor)}
Sharing(c, w, ctors) == {k \in MethodsOf(c, ctors) : FirstWord(c.methods[k].name) = w}
LifeWordsOf(c, ctors) ==
  {w \in {FirstWord(c.methods[k].name) : k \in MethodsOf(c, ctors)} : w \notin StopWords /\ Cardinality(Sharing(c, w, ctors)) >= 2}
LifeWords(c) == LifeWordsOf(c, FALSE)
ExpLifeWords(m) == UNION {LifeWords(m[i]) : i \in Services(m)}
\* the occurrences <<class, method>> listed under w
ExpLifeOcc(m, w) == UNION {{<<i, k>> : k \in Sharing(m[i], w, FALSE)} : i \in {j \in Services(m) : w \in LifeWords(m[j])}}
NameAt(m, ik) == m[ik[1]].methods[ik[2]].name
\* Free_X08_StopWordCase
StopUpToCase(w) == w \notin StopWords /\ LowerStr(w) \in StopWords

\* (R)
FullName(m, ik) == m[ik[1]].pkg \o "." \o m[ik[1]].name \o "." \o m[ik[1]].methods[ik[2]].name
RetOcc(m, t) == UNION {{<<i, k>> : k \in {j \in DOMAIN m[i].methods : m[i].methods[j].ret = t}} : i \in Services(m)}
ExpRetTypes(m) == {t \in ClassNames(m) : RetOcc(m, t) # {}}

\* (P)
LongOcc(m, ctors) ==
  UNION {{<<i, k>> : k \in {j \in DOMAIN m[i].methods : Len(m[i].methods[j].params) >= 4 /\ (ctors \/ ~m[i].methods[j].ctor)}} : i \in Services(m)}
ParamsAt(m, ik) == m[ik[1]].methods[ik[2]].params
NamesOf(m, occ) == UNION {Range(ParamsAt(m, ik)) : ik \in occ}
Together(m, occ, S) == Cardinality({ik \in occ : S \subseteq Range(ParamsAt(m, ik))})
Frequent(m, occ, S) == occ # {} /\ Together(m, occ, S) * 5 >= Cardinality(occ) * 4
SomeFrequent4(m, occ) == \E S \in SUBSET NamesOf(m, occ) : Cardinality(S) = 4 /\ Frequent(m, occ, S)
RelatedOK(m, occ, r) ==
  IF r = <<>> THEN ~SomeFrequent4(m, occ)
  ELSE /\ Cardinality(Range(r)) = Len(r) /\ Len(r) >= 4
       /\ Range(r) \subseteq NamesOf(m, occ)
       /\ Frequent(m, occ, Range(r))
\* Free_X08_MinerInputs
MinerJudged(m) == \A ik \in LongOcc(m, TRUE) : LET p == ParamsAt(m, ik) IN Cardinality(Range(p)) = Len(p) /\ "STOP" \notin Range(p)

-----------------------------------------------------------------------------
(* Known-defect shapes (spec-computed, narrow); a tag not listed in known_findings.json changes nothing *)

\* the map of a service overwrites the map stored for an earlier service
TagLastWins == "evalservice.lifecycle.last-service-wins"
\* constructors are read as methods: two constructors (or a constructor and a method) share a first word
TagCtor == "evalservice.lifecycle.constructor-counted"

Max(S) == CHOOSE x \in S : \A y \in S : y <= x
\* services that have a lifecycle word under either reading of "method"
LifeServices(m) == {i \in Services(m) : LifeWordsOf(m[i], TRUE) # {}}
\* w belongs to a service that is followed by another service with lifecycle words
EarlierWord(m, w) ==
  LET L == LifeServices(m)
  IN  Cardinality(L) >= 2 /\ \E i \in L : i < Max(L) /\ w \in LifeWordsOf(m[i], TRUE)
\* w is the first word of a constructor of a service
CtorWord(m, w) == \E i \in Services(m) : \E k \in DOMAIN m[i].methods : m[i].methods[k].ctor /\ m[i].methods[k].name # "" /\ FirstWord(m[i].methods[k].name) = w
LifeTags(m, w) == (IF EarlierWord(m, w) THEN {TagLastWins} ELSE {}) \cup (IF CtorWord(m, w) THEN {TagCtor} ELSE {})

-----------------------------------------------------------------------------
(* Diff *)

Item(k, w, t) == [prop |-> "X08", kind |-> k, where |-> w, tags |-> t]

CountIn(seq, x) == Cardinality({i \in DOMAIN seq : seq[i] = x})
At(n) == "call " \o ToString(n) \o ": "

DiffLifecycle(m, o, n) ==
  LET obsWords == {o.lifecycle[i].word : i \in DOMAIN o.lifecycle}
      exp == ExpLifeWords(m)
      entry(w) == o.lifecycle[CHOOSE i \in DOMAIN o.lifecycle : o.lifecycle[i].word = w]
      names(w) == {NameAt(m, ik) : ik \in ExpLifeOcc(m, w)} \cup Range(entry(w).methods)
      bagOK(w) == \A x \in names(w) : CountIn(entry(w).methods, x) = Cardinality({ik \in ExpLifeOcc(m, w) : NameAt(m, ik) = x})
  IN  {Item("duplicate-lifecycle-word", At(n) \o w, {}) : w \in {x \in obsWords : Cardinality({i \in DOMAIN o.lifecycle : o.lifecycle[i].word = x}) > 1}}
      \cup {Item("missing-lifecycle-word", At(n) \o w, LifeTags(m, w)) : w \in {x \in exp \ obsWords : ~StopUpToCase(x)}}
      \cup {Item("spurious-lifecycle-word", At(n) \o w, LifeTags(m, w)) : w \in obsWords \ exp}
      \cup {Item("lifecycle-methods", At(n) \o w, LifeTags(m, w)) : w \in {x \in exp \cap obsWords : ~bagOK(x)}}

DiffReturns(m, o, n) ==
  LET obsTypes == {o.returns[i].type : i \in DOMAIN o.returns}
      exp == ExpRetTypes(m)
      free(t) == t \in Builtin                                   \* Free_X08_BuiltinNamesake
      entry(t) == o.returns[CHOOSE i \in DOMAIN o.returns : o.returns[i].type = t]
      names(t) == {FullName(m, ik) : ik \in RetOcc(m, t)} \cup Range(entry(t).methods)
      bagOK(t) == \A x \in names(t) : CountIn(entry(t).methods, x) = Cardinality({ik \in RetOcc(m, t) : FullName(m, ik) = x})
  IN  {Item("duplicate-return-type", At(n) \o t, {}) : t \in {x \in obsTypes : Cardinality({i \in DOMAIN o.returns : o.returns[i].type = x}) > 1}}
      \cup {Item("missing-return-type", At(n) \o t, {}) : t \in {x \in exp \ obsTypes : ~free(x)}}
      \cup {Item("spurious-return-type", At(n) \o t, {}) : t \in {x \in obsTypes \ exp : ~(free(x) /\ x \in ClassNames(m))}}
      \cup {Item("return-type-methods", At(n) \o t, {}) : t \in {x \in exp \cap obsTypes : ~free(x) /\ ~bagOK(x)}}

DiffRelated(m, o, n) ==
  IF ~MinerJudged(m) THEN {}
  ELSE IF RelatedOK(m, LongOcc(m, FALSE), o.related) \/ RelatedOK(m, LongOcc(m, TRUE), o.related)   \* Free_X08_CtorParams
  THEN {} ELSE {Item("related-parameters", At(n), {})}

DiffSum(m, o, n) ==
  IF o.panic THEN {Item("panic", At(n), {})}
  ELSE IF ~o.wellformed THEN {Item("malformed-output", At(n), {})}
  ELSE DiffLifecycle(m, o, n) \cup DiffReturns(m, o, n) \cup DiffRelated(m, o, n)

\* (S) a result that was returned stays as it was (bags again: the projection order of a Go map is free)
SameSum(a, b) ==
  /\ a.panic = b.panic /\ a.wellformed = b.wellformed
  /\ {<<a.lifecycle[i].word, a.lifecycle[i].methods>> : i \in DOMAIN a.lifecycle} = {<<b.lifecycle[i].word, b.lifecycle[i].methods>> : i \in DOMAIN b.lifecycle}
  /\ {<<a.returns[i].type, a.returns[i].methods>> : i \in DOMAIN a.returns} = {<<b.returns[i].type, b.returns[i].methods>> : i \in DOMAIN b.returns}
  /\ a.related = b.related

Diff(rec) ==
  UNION {DiffSum(rec.runs[n].model, rec.runs[n].observed, n)
         \cup (IF SameSum(rec.runs[n].observed, rec.runs[n].later) THEN {} ELSE {Item("result-changed-by-later-call", At(n), {})})
           : n \in DOMAIN rec.runs}
=============================================================================
