---------------------------- MODULE X09TodoGitRef ----------------------------
(* Property-level Reference for the extension X09: `coca todo -g`                             *)
(* (todo.TodoApp.BuildWithGitHistory over the todos of TodoApp.AnalysisPath, with             *)
(* shell.RunGitGetLog and git.BuildMessageByInput; the command prints the table               *)
(* Date | Author | Messages | FileName | Line).                                               *)
(*                                                                                           *)
(* STATEMENT.  For any git repository with a linear history whose working tree is clean       *)
(* (every scanned file is committed and unmodified), when the command runs in a directory of  *)
(* the repository (its root, or a sub-directory: then only the files below it are scanned and *)
(* named relative to it):                                                                     *)
(*   (1) exactly one entry is reported per TODO/FIXME comment of the scanned files, carrying  *)
(*       the file, the line of the comment, its message (and, through the API, its assignee); *)
(*   (2) the entry's Author and Date are the author name and the author date (YYYY-MM-DD) of  *)
(*       the commit that LAST TOUCHED THE COMMENT'S LINE: the last commit of the history that *)
(*       wrote that line (created the file with it, inserted it, replaced its content, or     *)
(*       moved it there).  Commits that only change OTHER lines of the file (above or below,  *)
(*       adjacent or not), that delete other lines, that rename the file without changing it, *)
(*       or that change other files, do not count, however recent they are.  Neither the      *)
(*       order of the author dates nor the committer's name and date play a role.             *)
(*   (3) [pkg/adapter/shell] the line RunGitGetLog(line, file) returns for such a comment is  *)
(*       the header `[<abbreviated hash>] <author> <date> <subject>` of that same commit      *)
(*       (followed by "\n ", which is how the parser is told that the header is complete).    *)
(*                                                                                           *)
(* Where this comes from.  `coca todo --help`: "scan all todo, and list with time", flag -g   *)
(* "is with git info"; the comment in shell.go gives the intended query                       *)
(* `git log -1 -L2:README.md --pretty="format:[%h] %aN %ad %s" --date=short` as typed in a    *)
(* shell (where the double quotes are removed by the shell); the repository's test expects    *)
(* Author "Phodal Huang" for a TODO of its fixture.  "With time / git info" of a TODO can     *)
(* only mean who wrote that TODO and when, which is what blaming its line gives.              *)
(*                                                                                           *)
(* The abstract input is a HISTORY: a list of commits, each [author, date, subject, ops];     *)
(* an op edits one file (at most one op per file and commit):                                 *)
(*   add     [file, lines]        a new file with these lines                                 *)
(*   insert  [file, at, lines]    the lines become lines at .. at+n-1                         *)
(*   delete  [file, at, n]        lines at .. at+n-1 disappear                                *)
(*   replace [file, at, lines]    line `at` gets the (one) new line                           *)
(*   move    [file, at, n = to]   line `at` is taken out and put back as line `to`            *)
(*                                (|to - at| >= 2: a move across one line is the same diff    *)
(*                                as moving that one line the other way)                      *)
(*   rename  [file, to]           the file is renamed, content unchanged                      *)
(* A line is [kind, id]; its text is unique (it contains id), so the diff of every commit is  *)
(* the edit that was made.  kind: "code" | "todo" (`// TODO: m<id>`) | "fixme"                *)
(* (`// FIXME: m<id>`) | "assigned" (`// TODO(bob): m<id>`) | "block" (`/* TODO: m<id> */`).  *)
(* The Reference replays the history, stamping every line with the commit that wrote it.      *)
(*                                                                                           *)
(* Decisions where the statement is silent:                                                   *)
(*   Free_X09_Order     the order of the entries is not stated: judged as a set keyed by      *)
(*                      (file, line).                                                         *)
(*   Free_X09_Assignee  the table has no assignee column: not judged on the CLI route.        *)
(*   Quantifier: authors do not contain a date-like word; scanned files end in .java/.go/.js; *)
(*   merges, uncommitted files and dirty trees are outside.                                   *)
(*                                                                                           *)
(* Record (JSON shape shared by the TLC generator, the Go renderer and the validator):        *)
(*   rec.input    : [via, cwd, history : Seq([author, date, subject,                          *)
(*                      ops : Seq([op, file, to, at, n, lines : Seq([kind, id])])])]          *)
(*   rec.facts    : [revs : Seq(Str)  abbreviated hash of commit k, read from git,            *)
(*                   blame : Seq([file, commits : Seq(Nat)])  per file of HEAD and per line   *)
(*                           the index of the commit `git blame` names (renderer cross-check)]*)
(*   rec.observed : [panic, wellformed, hasAssignee,                                          *)
(*                   details : Seq([file, line, assignee, message, author, date]),            *)
(*                   logs : Seq([file, line, text])]   (API route; <<>> on the CLI route)     *)
EXTENDS Integers, Sequences, FiniteSets, TLC

Range(s) == {s[i] : i \in DOMAIN s}
Max(S) == CHOOSE x \in S : \A y \in S : y <= x

-----------------------------------------------------------------------------
(* replaying the history: tree = file name -> Seq([kind, id, by, gap])                        *)
(* by  = the commit that wrote the line (the statement's "last touched")                      *)
(* gap = the last commit that deleted lines directly before this line (0 = none); read only   *)
(*       by the tag predicate of the open-ended range                                         *)

Stamp(ls, k) == [i \in DOMAIN ls |-> [kind |-> ls[i].kind, id |-> ls[i].id, by |-> k, gap |-> 0]]

InsertAt(s, at, new) ==
  \* the gap stamp before the old line `at` stays before the inserted block
  LET g == IF at <= Len(s) THEN s[at].gap ELSE 0
      head == IF new = <<>> THEN <<>> ELSE <<[new[1] EXCEPT !.gap = g]>> \o SubSeq(new, 2, Len(new))
      tail == IF at <= Len(s) /\ new # <<>> THEN <<[s[at] EXCEPT !.gap = 0]>> \o SubSeq(s, at + 1, Len(s)) ELSE SubSeq(s, at, Len(s))
  IN  SubSeq(s, 1, at - 1) \o head \o tail

DeleteAt(s, at, n, k) ==
  LET tail == SubSeq(s, at + n, Len(s))
  IN  SubSeq(s, 1, at - 1) \o (IF tail = <<>> THEN <<>> ELSE <<[tail[1] EXCEPT !.gap = k]>> \o SubSeq(tail, 2, Len(tail)))

ApplyOp(tree, op, k) ==
  CASE op.op = "add"     -> tree @@ (op.file :> Stamp(op.lines, k))
    [] op.op = "insert"  -> [tree EXCEPT ![op.file] = InsertAt(@, op.at, Stamp(op.lines, k))]
    [] op.op = "delete"  -> [tree EXCEPT ![op.file] = DeleteAt(@, op.at, op.n, k)]
    [] op.op = "replace" -> [tree EXCEPT ![op.file][op.at] = [Stamp(op.lines, k)[1] EXCEPT !.gap = tree[op.file][op.at].gap]]
    [] op.op = "move"    -> [tree EXCEPT ![op.file] = InsertAt(DeleteAt(@, op.at, 1, k), op.n, Stamp(<<@[op.at]>>, k))]
    [] op.op = "rename"  -> [f \in (DOMAIN tree \ {op.file}) \cup {op.to} |-> IF f = op.to THEN tree[op.file] ELSE tree[f]]

RECURSIVE ApplyOps(_, _, _, _)
ApplyOps(tree, ops, i, k) == IF i > Len(ops) THEN tree ELSE ApplyOps(ApplyOp(tree, ops[i], k), ops, i + 1, k)
RECURSIVE Replay(_, _, _)
Replay(tree, hist, k) == IF k > Len(hist) THEN tree ELSE Replay(ApplyOps(tree, hist[k].ops, 1, k), hist, k + 1)
EmptyTree == <<>>
Final(hist) == Replay(EmptyTree, hist, 1)

-----------------------------------------------------------------------------
(* the statement *)

TodoKinds == {"todo", "fixme", "assigned", "block"}
Msg(line) == "m" \o ToString(line.id)
Asg(line) == IF line.kind = "assigned" THEN "bob" ELSE ""

EndsWith(s, t) == Len(s) >= Len(t) /\ SubSeq(s, Len(s) - Len(t) + 1, Len(s)) = t
StartsWith(s, t) == Len(s) >= Len(t) /\ SubSeq(s, 1, Len(t)) = t
Scanned(cwd, f) ==
  /\ (EndsWith(f, ".java") \/ EndsWith(f, ".go") \/ EndsWith(f, ".js"))
  /\ (cwd = "" \/ StartsWith(f, cwd \o "/"))
Rel(cwd, f) == IF cwd = "" THEN f ELSE SubSeq(f, Len(cwd) + 2, Len(f))

\* <<file, line>> of every comment that must be reported
TodoLines(tree, cwd) ==
  UNION {{<<f, i>> : i \in {j \in DOMAIN tree[f] : tree[f][j].kind \in TodoKinds}} : f \in {g \in DOMAIN tree : Scanned(cwd, g)}}

LastTouch(tree, fi) == tree[fi[1]][fi[2]].by

\* tag predicate: the last commit that touched ANY line from the comment's line to the end of the file
\* (a line written there, or lines deleted strictly below the comment's line)
OpenTouch(tree, fi) ==
  LET s == tree[fi[1]]
  IN  Max({s[i].by : i \in fi[2]..Len(s)} \cup {s[i].gap : i \in (fi[2] + 1)..Len(s)})

Header(in, facts, k) == "[" \o facts.revs[k] \o "] " \o in.history[k].author \o " " \o in.history[k].date \o " " \o in.history[k].subject
PlainForm(in, facts, k) == Header(in, facts, k) \o "\n "
QuotedForm(in, facts, k) == "\"format:" \o Header(in, facts, k) \o "\"\n "

-----------------------------------------------------------------------------
(* Known-defect shapes (spec-computed, narrow); a tag not listed in known_findings.json changes nothing *)

\* `--pretty="format:..."` is handed to git WITH the double quotes: the line starts with `"format:`, the anchored
\* header expression never matches and Author / Date stay empty
TagQuoted == "todogit.header.quoted-format"
\* `-L<line>:<file>` has no end: git reads it as "from <line> to the end of the file"
TagOpen == "todogit.blame.open-ended-range"

-----------------------------------------------------------------------------
(* Diff *)

Item(k, w, t) == [prop |-> "X09", kind |-> k, where |-> w, tags |-> t]
Where(f, l) == f \o ":" \o ToString(l)

\* renderer cross-check: git's own blame of HEAD agrees with the stamps of the replay (otherwise the rendered
\* repository is not the abstract history and nothing can be judged: TLC fails on the record = no verdict)
FactsAgree(tree, facts) ==
  /\ {facts.blame[i].file : i \in DOMAIN facts.blame} = DOMAIN tree
  /\ \A i \in DOMAIN facts.blame :
       LET f == facts.blame[i].file
       IN  f \in DOMAIN tree /\ facts.blame[i].commits = [j \in DOMAIN tree[f] |-> tree[f][j].by]

DiffDetails(in, facts, o, tree) ==
  LET exp == TodoLines(tree, in.cwd)
      key(d) == <<d.file, d.line>>
      expKeys == {<<Rel(in.cwd, fi[1]), fi[2]>> : fi \in exp}
      obsKeys == {key(o.details[i]) : i \in DOMAIN o.details}
      of(kk) == CHOOSE fi \in exp : <<Rel(in.cwd, fi[1]), fi[2]>> = kk
      judged == {i \in DOMAIN o.details : key(o.details[i]) \in expKeys}
      adTags(d, fi) ==
        (IF d.author = "" /\ d.date = "" THEN {TagQuoted} ELSE {})
        \cup (LET ko == OpenTouch(tree, fi)
              IN  IF ko # LastTouch(tree, fi) /\ d.author = in.history[ko].author /\ d.date = in.history[ko].date THEN {TagOpen} ELSE {})
  IN  {Item("missing-todo", Where(kk[1], kk[2]), {}) : kk \in expKeys \ obsKeys}
      \cup {Item("spurious-todo", Where(kk[1], kk[2]), {}) : kk \in obsKeys \ expKeys}
      \cup {Item("duplicate-todo", Where(kk[1], kk[2]), {}) : kk \in {x \in obsKeys : Cardinality({i \in DOMAIN o.details : key(o.details[i]) = x}) > 1}}
      \cup {Item("message", Where(o.details[i].file, o.details[i].line), {})
              : i \in {j \in judged : LET fi == of(key(o.details[j])) IN o.details[j].message # Msg(tree[fi[1]][fi[2]])}}
      \cup {Item("assignee", Where(o.details[i].file, o.details[i].line), {})
              : i \in {j \in judged : LET fi == of(key(o.details[j])) IN o.hasAssignee /\ o.details[j].assignee # Asg(tree[fi[1]][fi[2]])}}
      \cup {Item("author-date", Where(o.details[i].file, o.details[i].line), adTags(o.details[i], of(key(o.details[i]))))
              : i \in {j \in judged : LET fi == of(key(o.details[j]))
                                          k == LastTouch(tree, fi)
                                      IN  o.details[j].author # in.history[k].author \/ o.details[j].date # in.history[k].date}}

DiffLogs(in, facts, o, tree) ==
  LET exp == TodoLines(tree, in.cwd)
      commits == DOMAIN in.history
      judged == {i \in DOMAIN o.logs : \E fi \in exp : <<Rel(in.cwd, fi[1]), fi[2]>> = <<o.logs[i].file, o.logs[i].line>>}
      of(i) == CHOOSE fi \in exp : <<Rel(in.cwd, fi[1]), fi[2]>> = <<o.logs[i].file, o.logs[i].line>>
      plain(i) == {k \in commits : o.logs[i].text = PlainForm(in, facts, k)}
      quoted(i) == {k \in commits : o.logs[i].text = QuotedForm(in, facts, k)}
      named(i) == plain(i) \cup quoted(i)
      w(i) == Where(o.logs[i].file, o.logs[i].line)
  IN  {Item("log-line-unrecognised", w(i), {}) : i \in {j \in judged : named(j) = {}}}
      \cup {Item("log-line-format", w(i), {TagQuoted}) : i \in {j \in judged : plain(j) = {} /\ quoted(j) # {}}}
      \cup {Item("log-line-commit", w(i), IF OpenTouch(tree, of(i)) \in named(i) THEN {TagOpen} ELSE {})
              : i \in {j \in judged : named(j) # {} /\ LastTouch(tree, of(j)) \notin named(j)}}

Diff(rec) ==
  LET tree == Final(rec.input.history)
      o == rec.observed
  IN  IF ~Assert(FactsAgree(tree, rec.facts), "harness: git blame of the rendered repository disagrees with the abstract history")
      THEN {}
      ELSE IF o.panic THEN {Item("panic", "", {})}
      ELSE IF ~o.wellformed THEN {Item("malformed-output", "", {})}
      ELSE DiffDetails(rec.input, rec.facts, o, tree) \cup DiffLogs(rec.input, rec.facts, o, tree)
=============================================================================
