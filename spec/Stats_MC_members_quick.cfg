\* quick, eval part: a class body of <= 2 members (methods named alpha/beta - overloads included - and constructors):
\* registers of the listener across members (annotations inherited through currentMethod, IsReturnNull, the nullable map)
SPECIFICATION Spec
CONSTANTS
  Part = "eval"
  Repaired = TRUE
  MaxCalls = 0
  Targets = 3
  WithOverload = FALSE
  PreToks = {"public", "static", "@Nullable"}
  MaxPre = 2
  RetKinds = {"null", "other"}
  MaxRets = 1
  MaxMembers = 2
  WithCtor = TRUE
  MaxPieces = 1
  MaxNames = 1
INVARIANTS C18_CountsConserved C18_CountReference C18_StaticIsPermutationInvariant C18_NullableExactOnce C18_SummaryNumbers C18_NoStaleMethodState C18_ConceptSum Emit
