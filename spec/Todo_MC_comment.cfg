\* thorough: longer comment texts: every text of <= 6 cells over the comment alphabet (comment openers, the
\* word in two spellings, a longer identifier starting with the word, another word, blank, tab, colon,
\* parentheses, newline; no literals), several files / filter lists
SPECIFICATION Spec
CONSTANTS
  MaxLen = 6
  Alphabet <- AlphaComment
  Files <- FilesWide
  FilterLists <- FiltersWide
  HashStrip = 1
INVARIANTS C17_NoCrashOnAnyShape C17_ReportedExact C17_LineCounter Emit
