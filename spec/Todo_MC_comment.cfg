\* thorough: longer comment texts: every text of <= 6 cells that starts with a comment opener (//, #, /*,
\* /**, or "\n# "), over the comment alphabet (openers, the word in two spellings, a longer identifier
\* starting with the word, another word, blank, tab, colon, parentheses, newline; no literals)
SPECIFICATION Spec
CONSTANTS
  MaxLen = 6
  Starts <- StartsComment
  Alphabet <- AlphaComment
  Files <- FilesQuick
  FilterLists <- FiltersQuick
  HashStrip = 1
INVARIANTS C17_NoCrashOnAnyShape C17_ReportedExact C17_LineCounter Emit
