----------------------------- MODULE SpringApi -----------------------------
(* Implementation-shaped Machine of ast_api_java.JavaAPIListener driven by           *)
(* api.JavaApiApp.AnalysisPath: a process analysing a sequence of files; one action  *)
(* per listener callback; the variables are the package-level registers of the       *)
(* listener (which survive a file unless NewJavaAPIListener resets them).            *)
(* Inputs are chosen incrementally: the next file is picked by NextFile, judged when *)
(* its walk ends, and only the registers survive. `hist` is a witness (the files     *)
(* analysed so far) hidden from the state identity by VIEW, so every reachable       *)
(* (register valuation, file) pair is explored once and emitted with a history that  *)
(* reproduces it on the real code.                                                   *)
EXTENDS SpringApiRef, Json

CONSTANTS MaxFiles,      \* length of the histories
          MaxMembers     \* members per class

VARIABLES
  hasEnterClass, isCtrl, pending, baseUrl, cur, reqBody, apis, curClz, curPkg,   \* listener registers
  file, evs, pos,       \* the file being walked, its callback sequence, next callback
  hist,                 \* witness: files analysed so far (hidden by VIEW)
  nfiles

regs == <<hasEnterClass, isCtrl, pending, baseUrl, cur, reqBody, apis, curClz, curPkg>>
vars == <<hasEnterClass, isCtrl, pending, baseUrl, cur, reqBody, apis, curClz, curPkg, file, evs, pos, hist, nfiles>>
View == <<hasEnterClass, isCtrl, pending, baseUrl, cur, reqBody, apis, curClz, curPkg, file, evs, pos, nfiles>>

-----------------------------------------------------------------------------
(* the space of abstract files *)

P(t, n, b) == [type |-> t, name |-> n, body |-> b]
ParamLists == {<<>>, <<P("long", "id", FALSE)>>, <<P("String", "q", FALSE), P("Foo", "foo", TRUE)>>}
Handler(ann, verb, form, path, ps) ==
  [kind |-> "handler", name |-> "h", ann |-> ann, verb |-> verb, form |-> form, path |-> path, params |-> ps]
MemberKinds ==
  {[kind |-> "plain", name |-> "h", ann |-> "", verb |-> "", form |-> "none", path |-> "", params |-> ps] :
      ps \in {<<>>, <<P("long", "id", FALSE)>>}} \cup
  {Handler("GetMapping", "GET", f, IF f = "none" THEN "" ELSE "/x", ps) : f \in {"short", "value", "none"}, ps \in ParamLists} \cup
  {Handler("DeleteMapping", "DELETE", "short", "/{id}", ps) : ps \in ParamLists} \cup
  {Handler("RequestMapping", "POST", f, IF f = "none" THEN "" ELSE "/y", ps) : f \in {"value", "none"}, ps \in ParamLists} \cup
  \* a mapping that names no verb at all (@RequestMapping("/z")): the entry has no verb - in particular not the verb of
  \* the handler before it
  {Handler("RequestMapping", "", "short", "/z", ps) : ps \in {<<>>, <<P("long", "id", FALSE)>>}}
MemberSeqs == UNION {[1..n -> MemberKinds] : n \in 0..MaxMembers}
\* members get distinct names by position
Named(ms) == [i \in DOMAIN ms |-> [ms[i] EXCEPT !.name = <<"m1", "m2", "m3">>[i]]]
Bases == {[form |-> "none", path |-> ""], [form |-> "short", path |-> "/b"], [form |-> "value", path |-> "/v"]}
ClsName(i) == <<"K1", "K2", "K3", "K4">>[i]
Files(i) ==
  {f \in {[pkg |-> "p", cls |-> ClsName(i), ctrl |-> c, mapfirst |-> mf, base |-> b, members |-> Named(ms)] :
             c \in {"RestController", "Controller", "none"}, b \in Bases, mf \in BOOLEAN, ms \in MemberSeqs} :
     f.mapfirst => f.base.form # "none"}

\* the callbacks the tree walker issues for a file
Ann(name, form, path, verb) == [e |-> "annotation", name |-> name, form |-> form, path |-> path, verb |-> verb]
ClassAnns(f) ==
  LET c == IF f.ctrl = "none" THEN <<>> ELSE <<Ann(f.ctrl, "none", "", "")>>
      b == IF f.base.form = "none" THEN <<>> ELSE <<Ann("RequestMapping", f.base.form, f.base.path, "")>>
  IN  IF f.mapfirst THEN b \o c ELSE c \o b
MemberEvents(m) ==
  (IF m.kind = "handler"
   THEN <<Ann(m.ann, m.form, m.path, IF m.ann = "RequestMapping" THEN m.verb ELSE "")>> ELSE <<>>)
  \o <<[e |-> "method", m |-> m]>>
RECURSIVE AllMembers(_, _)
AllMembers(ms, i) == IF i > Len(ms) THEN <<>> ELSE MemberEvents(ms[i]) \o AllMembers(ms, i + 1)
Events(f) == <<[e |-> "package"]>> \o ClassAnns(f) \o <<[e |-> "enterClass"]>> \o AllMembers(f.members, 1) \o <<[e |-> "exitClass"]>>

-----------------------------------------------------------------------------
NoApi == [uri |-> "", verb |-> ""]
NoFile == [pkg |-> "", cls |-> "", ctrl |-> "none", mapfirst |-> FALSE, base |-> [form |-> "none", path |-> ""], members |-> <<>>]

Init ==
  /\ hasEnterClass = FALSE /\ isCtrl = FALSE /\ pending = FALSE /\ baseUrl = "" /\ cur = NoApi
  /\ reqBody = "" /\ apis = <<>> /\ curClz = "" /\ curPkg = ""
  /\ file = NoFile /\ evs = <<>> /\ pos = 1 /\ hist = <<>> /\ nfiles = 0

AtEnd == pos > Len(evs)
ev == evs[pos]

\* AnalysisPath loop body: take the next file, NewJavaAPIListener (what it resets), start the walk
NextFile ==
  /\ AtEnd /\ nfiles < MaxFiles
  /\ \E f \in Files(nfiles + 1) :
       /\ file' = f /\ evs' = Events(f) /\ hist' = Append(hist, f)
  /\ pos' = 1 /\ nfiles' = nfiles + 1
  \* NewJavaAPIListener (after fix 362418e every register of the walk is reset here)
  /\ isCtrl' = FALSE /\ hasEnterClass' = FALSE /\ pending' = FALSE /\ baseUrl' = "" /\ reqBody' = ""
  /\ curClz' = "" /\ curPkg' = "" /\ apis' = <<>> /\ cur' = NoApi

EnterPackage ==
  /\ ~AtEnd /\ ev.e = "package"
  /\ curPkg' = file.pkg /\ pos' = pos + 1
  /\ UNCHANGED <<hasEnterClass, isCtrl, pending, baseUrl, cur, reqBody, apis, curClz, file, evs, hist, nfiles>>

EnterClass ==
  /\ ~AtEnd /\ ev.e = "enterClass"
  /\ hasEnterClass' = TRUE /\ curClz' = file.cls /\ pos' = pos + 1
  /\ UNCHANGED <<isCtrl, pending, baseUrl, cur, reqBody, apis, curPkg, file, evs, hist, nfiles>>

ExitClass ==
  /\ ~AtEnd /\ ev.e = "exitClass"
  /\ hasEnterClass' = FALSE /\ pos' = pos + 1
  /\ UNCHANGED <<isCtrl, pending, baseUrl, cur, reqBody, apis, curClz, curPkg, file, evs, hist, nfiles>>

IsMapping(n) == n \in {"RequestMapping", "GetMapping", "PutMapping", "PostMapping", "DeleteMapping"}
VerbOfAnn(n) == CASE n = "GetMapping" -> "GET" [] n = "PutMapping" -> "PUT" [] n = "PostMapping" -> "POST"
                  [] n = "DeleteMapping" -> "DELETE" [] OTHER -> ""

\* EnterAnnotation, class level: only the base url (any order of the class annotations; fix 230cb40)
ClassAnnotation ==
  /\ ~AtEnd /\ ev.e = "annotation" /\ ~hasEnterClass
  /\ isCtrl' = (isCtrl \/ ev.name \in {"RestController", "Controller"})
  /\ baseUrl' = IF ev.name = "RequestMapping"
                THEN (IF ev.form \in {"short", "value"} THEN ev.path ELSE "/")
                ELSE baseUrl
  /\ pos' = pos + 1
  /\ UNCHANGED <<hasEnterClass, pending, cur, reqBody, apis, curClz, curPkg, file, evs, hist, nfiles>>

\* EnterAnnotation, member level: opens a pending entry for a mapping annotation of a controller
MemberAnnotation ==
  /\ ~AtEnd /\ ev.e = "annotation" /\ hasEnterClass
  /\ pos' = pos + 1
  /\ IF isCtrl /\ IsMapping(ev.name)
     THEN /\ pending' = TRUE
          /\ LET uri0  == baseUrl \o (IF ev.form = "short" THEN ev.path ELSE "")     \* ElementValue
                 verb0 == IF ev.name # "RequestMapping" THEN VerbOfAnn(ev.name) ELSE ""
                 \* element-value pairs (all mapping annotations since fix 6bd6418)
                 uri1  == IF ev.form = "value" THEN baseUrl \o ev.path ELSE uri0
                 verb1 == IF ev.verb # "" THEN ev.verb ELSE verb0
             IN  cur' = [uri |-> uri1, verb |-> verb1]
     ELSE UNCHANGED <<pending, cur>>
  /\ UNCHANGED <<hasEnterClass, isCtrl, baseUrl, reqBody, apis, curClz, curPkg, file, evs, hist, nfiles>>

\* EnterMethodDeclaration: completes the pending entry
EnterMethod ==
  /\ ~AtEnd /\ ev.e = "method"
  /\ pos' = pos + 1
  /\ IF pending
     THEN LET m  == ev.m
              bs == SelectSeq(m.params, LAMBDA p : p.body)
              body == IF m.params = <<>> THEN reqBody                       \* "()" branch uses the register as is
                      ELSE IF bs = <<>> THEN reqBody ELSE bs[Len(bs)].type   \* last @RequestBody parameter wins
          IN  /\ apis' = Append(apis, [verb |-> cur.verb, uri |-> cur.uri, body |-> body,
                                       pkg |-> curPkg, cls |-> curClz, method |-> m.name])
              /\ pending' = FALSE /\ reqBody' = ""
     ELSE UNCHANGED <<apis, pending, reqBody>>
  /\ UNCHANGED <<hasEnterClass, isCtrl, baseUrl, cur, curClz, curPkg, file, evs, hist, nfiles>>

Finished == AtEnd /\ nfiles = MaxFiles
Done == Finished /\ UNCHANGED vars

Next == NextFile \/ EnterPackage \/ EnterClass \/ ExitClass \/ ClassAnnotation \/ MemberAnnotation \/ EnterMethod \/ Done
Spec == Init /\ [][Next]_vars

-----------------------------------------------------------------------------
(* Properties *)

\* at the end of a file's walk the listener's list is exactly the Reference's list for that file
C12_EntriesExact == (AtEnd /\ nfiles > 0) => DiffFile(apis, file, 1) = {}

\* no entry ever carries another class's name or package
C12_OwnClass == \A i \in DOMAIN apis : apis[i].cls = file.cls /\ apis[i].pkg = file.pkg

\* C07: nothing survives a file: the walk of every file starts from the same register valuation
C07_NoCarryOver ==
  [][(nfiles' = nfiles + 1) =>
       (hasEnterClass' = FALSE /\ isCtrl' = FALSE /\ pending' = FALSE /\ baseUrl' = "" /\ reqBody' = ""
        /\ apis' = <<>> /\ cur' = NoApi /\ curClz' = "" /\ curPkg' = "")]_vars

\* generation: the history that reaches this (registers, file) pair, for replay on the real code
Emit == (AtEnd /\ nfiles > 0) => PrintT(<<"CASE", ToJson([files |-> hist])>>)
=============================================================================
