\* quick: every model of <= 2 entries (one package, two names), each with <= 1 class-level call, <= 1 function of <= 1 call,
\* <= 1 call in an inner structure; callees: the two classes and one class outside the model; the repaired settings
\* (proposed_fixes/X06-1.patch, X06-2.patch)
SPECIFICATION Spec
CONSTANTS
  MaxDeps = 2
  MaxField = 1
  MaxFns = 1
  MaxCalls = 1
  MaxInner = 1
  Pkgs = {"x"}
  ClassNames = {"y", "Z"}
  CalleePkgs = {"x"}
  CalleeNames = {"y", "Z", "Out"}
  SelfCalls = "skip"
  ClassLevel = "read"
  InnerCalls = "read"
INVARIANTS X06_Exact X06_Once X06_Sorted X06_Tables X06_ExcludeOnce Emit
