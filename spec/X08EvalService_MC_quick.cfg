\* quick, lifecycle: every model of <= 2 classes (two services in two packages, one plain class) with <= 2 functions
\* each (four names: a shared word twice, a stop word twice; or a constructor); repaired store and
\* constructor handling (proposed_fixes/X08-1.patch, X08-2.patch)
SPECIFICATION Spec
CONSTANTS
  MaxCalls = 1
  MaxClasses = 2
  MaxMethods = 2
  ClassPoolName = "services"
  NamePool = {"doSave", "doUpdate", "getA", "getB"}
  RetPool = {"void"}
  ParamPoolName = "none"
  Ctors = TRUE
  LifecycleStore = "merge"
  CtorIsMethod = FALSE
INVARIANTS X08_Lifecycle X08_ReturnTypes X08_Related X08_SplitAgrees X08_Registers Emit
