\* every text of <= 3 cells (boundary shapes: empty comment, marker only, one cell); all of them are replayed
SPECIFICATION Spec
CONSTANTS
  MaxLen = 3
  Starts <- StartsNone
  Alphabet <- AlphaBase
  Files <- FilesQuick
  FilterLists <- FiltersQuick
  HashStrip = 1
INVARIANTS C17_NoCrashOnAnyShape C17_ReportedExact C17_LineCounter Emit
