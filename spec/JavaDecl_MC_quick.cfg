SPECIFICATION Spec
CONSTANTS MaxMembers = 2
INVARIANTS C01_IdentExact C01_FullExact Emit
