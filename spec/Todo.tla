------------------------------- MODULE Todo -------------------------------
(* Implementation-shaped Machine of `coca todo` for ONE file of the tree:             *)
(*   todo.TodoApp.AnalysisPath  - the extension filter loop (strings.HasSuffix)       *)
(*   todo.BuildComments         - lexer.GetAllTokens(), then one visit per comment     *)
(*                                token (COMMENT / LINE_COMMENT / PYTHON_COMMENT)      *)
(*   CommentLexer.g4            - the lexer as a character(cell)-driven mode machine   *)
(*                                with ANTLR's longest-match / last-accept / error     *)
(*                                recovery behaviour                                   *)
(*   astitodo.ParseComment      - trim, strip the marker, IsTodoIdentifier, colon,     *)
(*                                assignee regexp, handleForMultipleLine               *)
(* The source text is chosen incrementally: a lexer action that needs a cell beyond   *)
(* the text chosen so far picks it (so TLC enumerates every text of <= MaxLen cells,  *)
(* and the state space is prefixes x lexer registers).  When the file is finished the *)
(* Machine's report is judged by the same Reference (TodoRef!Diff) that judges the    *)
(* real code in Todo_Trace, and the text is emitted as a replay case.                 *)
EXTENDS TodoRef, Json

CONSTANTS MaxLen,        \* max number of cells of the text
          Starts,        \* set of initial texts (<<>>, or a comment opener to reach longer comment texts)
          Alphabet,      \* cells to build texts from
          Files,         \* set of [name, ext]: the file
          FilterLists,   \* set of filter lists
          HashStrip      \* characters ParseComment strips from a `#` comment: 1 = by marker length
                         \* (proposed_fixes/C17-1.patch), 2 = the fixed offset t[2:] of the unrepaired code

VARIABLES file, filters, \* the file and the extension filters (input)
          src, eof,      \* the text chosen so far (input); eof: the text is complete
          phase,         \* "filter" | "lex" | "visit" | "done"
          fi,            \* AnalysisPath: index in the filter loop
          pos, line,     \* lexer: input position (cell index), line counter
          mode,          \* lexer: state inside the token being matched
          tokStart, tokLine,   \* lexer: start index and line of the token being matched
          tokens,        \* GetAllTokens(): the comment tokens [kind, line, text]
          ti,            \* BuildComments: index in the token loop
          todos,         \* the result list
          panic          \* a run-time panic happened

vars == <<file, filters, src, eof, phase, fi, pos, line, mode, tokStart, tokLine, tokens, ti, todos, panic>>

AlphaBase == {"/", "*", "#", "\"", "'", "\\", "`", "TODO", "ab", " ", ":", "(", ")", "\n"}
AlphaWide == AlphaBase \cup {"fixmeS", "\t", "x"}
AlphaComment == {"/", "*", "#", "TODO", "FixMe", "todos", "ab", " ", "\t", ":", "(", ")", "\n"}

StartsNone == {<<>>}
StartsComment == {<<"/", "/">>, <<"#">>, <<"/", "*">>, <<"/", "*", "*">>, <<"\n", "#", " ">>}

FilesQuick == {[name |-> "a", ext |-> ".java"], [name |-> "a.java", ext |-> ".txt"]}
FiltersQuick == {<<".py", ".java">>}
FilesWide == {[name |-> "a", ext |-> ".java"], [name |-> "a.java", ext |-> ".txt"], [name |-> "b", ext |-> ".javax"], [name |-> "b", ext |-> ".py"]}
FiltersWide == {<<".java">>, <<".py", ".java">>, <<".go">>}

Path == "src/" \o file.name \o file.ext
HasSuffix(p, e) == Len(p) >= Len(e) /\ SubSeq(p, Len(p) - Len(e) + 1, Len(p)) = e

Init ==
  /\ file \in Files /\ filters \in FilterLists
  /\ src \in Starts /\ eof = FALSE
  /\ phase = "filter" /\ fi = 1
  /\ pos = 1 /\ line = 1 /\ mode = "code" /\ tokStart = 0 /\ tokLine = 0
  /\ tokens = <<>> /\ ti = 0 /\ todos = <<>> /\ panic = FALSE

-----------------------------------------------------------------------------
(* AnalysisPath: CodeFileFilter *)

FilterStep ==        \* loop body: for _, ext := range extensions { if HasSuffix(path, ext) return true }
  /\ phase = "filter" /\ fi <= Len(filters)
  /\ IF HasSuffix(Path, filters[fi]) THEN phase' = "lex" /\ fi' = fi
                                     ELSE phase' = phase /\ fi' = fi + 1
  /\ UNCHANGED <<file, filters, src, eof, pos, line, mode, tokStart, tokLine, tokens, ti, todos, panic>>

FilterMiss ==        \* return false: the file is not scanned
  /\ phase = "filter" /\ fi > Len(filters)
  /\ phase' = "done"
  /\ UNCHANGED <<file, filters, src, eof, fi, pos, line, mode, tokStart, tokLine, tokens, ti, todos, panic>>

-----------------------------------------------------------------------------
(* CommentLexer *)

\* cells the lexer can read at `pos`: the next cell of the text, or (at the frontier) any cell
Avail == IF pos <= Len(src) THEN {src[pos]}
         ELSE IF eof \/ Len(src) >= MaxLen THEN {}
         ELSE {c \in Alphabet : src = <<>> \/ ~(LastCharWord(src[Len(src)]) /\ FirstCharWord(c))}
Take(c) == src' = IF pos <= Len(src) THEN src ELSE Append(src, c)
AtEnd == pos > Len(src) /\ eof

CloseInput ==        \* the text ends here
  /\ phase = "lex" /\ pos > Len(src) /\ ~eof
  /\ eof' = TRUE
  /\ UNCHANGED <<file, filters, src, phase, fi, pos, line, mode, tokStart, tokLine, tokens, ti, todos, panic>>

Tok(k, l, t) == [kind |-> k, line |-> l, text |-> t]
EscFirst == {"b", "t", "n", "f", "r", "\"", "'", "\\", "0", "1", "2", "3", "4", "5", "6", "7", "u"}
NLStep(c) == IF IsNL(c) THEN line + 1 ELSE line

LexCode ==           \* start of a token
  /\ phase = "lex" /\ mode = "code"
  /\ \E c \in Avail :
       /\ Take(c) /\ pos' = pos + 1
       /\ line' = NLStep(c)                   \* WS token
       /\ IF c \in {"/", "#", "\"", "'", "`"}
          THEN /\ tokStart' = pos /\ tokLine' = line
               /\ mode' = CASE c = "/" -> "slash" [] c = "#" -> "hash" [] c = "\"" -> "str" [] c = "'" -> "chr0" [] c = "`" -> "tpl"
          ELSE UNCHANGED <<mode, tokStart, tokLine>>     \* any other token; a backslash is a recognition error: skipped
  /\ UNCHANGED <<file, filters, eof, phase, fi, tokens, ti, todos, panic>>

LexSlash ==          \* after "/": LINE_COMMENT, COMMENT, or DIV (last accept state) and re-read
  /\ phase = "lex" /\ mode = "slash"
  /\ \/ \E c \in Avail :
          /\ Take(c)
          /\ IF c = "/" THEN mode' = "line" /\ pos' = pos + 1
             ELSE IF c = "*" THEN mode' = "block" /\ pos' = pos + 1
             ELSE mode' = "code" /\ pos' = pos
     \/ AtEnd /\ mode' = "code" /\ UNCHANGED <<src, pos>>
  /\ UNCHANGED <<file, filters, eof, phase, fi, line, tokStart, tokLine, tokens, ti, todos, panic>>

LexLineOrHash ==     \* LINE_COMMENT: '//' ~[\r\n]*   PYTHON_COMMENT: '#' ~[\r\n\f]*
  /\ phase = "lex" /\ mode \in {"line", "hash"}
  /\ \/ \E c \in Avail :
          /\ Take(c)
          /\ IF IsNL(c)
             THEN /\ tokens' = Append(tokens, Tok(mode, tokLine, SubSeq(src', tokStart, pos - 1)))
                  /\ mode' = "code" /\ pos' = pos
             ELSE UNCHANGED <<tokens, mode>> /\ pos' = pos + 1
     \/ /\ AtEnd
        /\ tokens' = Append(tokens, Tok(mode, tokLine, SubSeq(src, tokStart, pos - 1)))
        /\ mode' = "code" /\ UNCHANGED <<src, pos>>
  /\ UNCHANGED <<file, filters, eof, phase, fi, line, tokStart, tokLine, ti, todos, panic>>

LexBlock ==          \* COMMENT: '/*' .*? '*/' ; at end of input: fall back to DIV and re-lex from the "*"
  /\ phase = "lex" /\ mode \in {"block", "blockStar"}
  /\ \/ \E c \in Avail :
          /\ Take(c) /\ pos' = pos + 1 /\ line' = NLStep(c)
          /\ IF mode = "blockStar" /\ c = "/"
             THEN /\ tokens' = Append(tokens, Tok("block", tokLine, SubSeq(src', tokStart, pos)))
                  /\ mode' = "code"
             ELSE /\ mode' = IF c = "*" THEN "blockStar" ELSE "block"
                  /\ UNCHANGED tokens
     \/ /\ AtEnd
        /\ pos' = tokStart + 1 /\ line' = tokLine /\ mode' = "code"
        /\ UNCHANGED <<src, tokens>>
  /\ UNCHANGED <<file, filters, eof, phase, fi, tokStart, tokLine, ti, todos, panic>>

LexString ==         \* STRING_LITERAL; newline / bad escape / end of input: recognition error, offending cell skipped
  /\ phase = "lex" /\ mode \in {"str", "strEsc"}
  /\ \/ \E c \in Avail :
          /\ Take(c) /\ pos' = pos + 1 /\ line' = NLStep(c)
          /\ mode' = IF mode = "str"
                     THEN (IF c = "\"" \/ IsNL(c) THEN "code" ELSE IF c = "\\" THEN "strEsc" ELSE "str")
                     ELSE (IF Ch(c, 1) \in EscFirst THEN "str" ELSE "code")
     \/ AtEnd /\ mode' = "code" /\ UNCHANGED <<src, pos, line>>
  /\ UNCHANGED <<file, filters, eof, phase, fi, tokStart, tokLine, tokens, ti, todos, panic>>

LexChar ==           \* CHAR_LITERAL: exactly one character or one escape between the quotes
  /\ phase = "lex" /\ mode \in {"chr0", "chr1", "chrEsc"}
  /\ \/ \E c \in Avail :
          /\ Take(c) /\ pos' = pos + 1 /\ line' = NLStep(c)
          /\ mode' = CASE mode = "chr0"   -> (IF c = "\\" THEN "chrEsc"
                                              ELSE IF c = "'" \/ IsNL(c) \/ Len(c) > 1 THEN "code" ELSE "chr1")
                       [] mode = "chr1"   -> "code"              \* the closing quote, or an error: either way a new token follows
                       [] mode = "chrEsc" -> (IF Len(c) = 1 /\ c \in EscFirst THEN "chr1" ELSE "code")
     \/ AtEnd /\ mode' = "code" /\ UNCHANGED <<src, pos, line>>
  /\ UNCHANGED <<file, filters, eof, phase, fi, tokStart, tokLine, tokens, ti, todos, panic>>

LexTemplate ==       \* TemplateStringLiteral: '`' ('\\`' | ~'`')* '`'
  /\ phase = "lex" /\ mode \in {"tpl", "tplEsc"}
  /\ \/ \E c \in Avail :
          /\ Take(c) /\ pos' = pos + 1 /\ line' = NLStep(c)
          /\ mode' = IF c = "\\" THEN "tplEsc"
                     ELSE IF c = "`" /\ mode = "tpl" THEN "code" ELSE "tpl"
     \/ AtEnd /\ mode' = "code" /\ UNCHANGED <<src, pos, line>>
  /\ UNCHANGED <<file, filters, eof, phase, fi, tokStart, tokLine, tokens, ti, todos, panic>>

LexEOF ==            \* GetAllTokens() returns
  /\ phase = "lex" /\ mode = "code" /\ AtEnd
  /\ phase' = "visit" /\ ti' = 1
  /\ UNCHANGED <<file, filters, src, eof, fi, pos, line, mode, tokStart, tokLine, tokens, todos, panic>>

-----------------------------------------------------------------------------
(* astitodo.ParseComment on cells *)

LastNonBlank(t) == IF \E i \in DOMAIN t : t[i] \notin Blanks
                   THEN CHOOSE i \in DOMAIN t : t[i] \notin Blanks /\ \A k \in i + 1..Len(t) : t[k] \in Blanks
                   ELSE 0
TrimCells(t) == SubSeq(t, SkipIn(t, 1, Blanks), LastNonBlank(t))        \* strings.TrimSpace

RECURSIVE CharLen(_), DropChars(_, _), Join(_)
CharLen(t) == IF t = <<>> THEN 0 ELSE Len(t[1]) + CharLen(Tail(t))
DropChars(t, n) ==                                                      \* t[n:]
  IF n = 0 \/ t = <<>> THEN t
  ELSE IF Len(t[1]) <= n THEN DropChars(Tail(t), n - Len(t[1]))
  ELSE <<SubSeq(t[1], n + 1, Len(t[1]))>> \o Tail(t)
Join(t) == IF t = <<>> THEN "" ELSE t[1] \o Join(Tail(t))

StripColon(t) == IF t # <<>> /\ t[1] = ":" THEN TrimCells(Drop(t, Colons(t))) ELSE t    \* TrimLeft(t, ":") ; TrimSpace

\* a cell all of whose characters are in the class [\w \._\+\-@] of the assignee expression
RegexCell(x) == x = " " \/ (x \notin SpecialCells /\ \A k \in 1..Len(x) : Ch(x, k) \in WordChars \cup {".", "+", "-", "@"})

ParseComment(tok) ==
  LET t0 == TrimCells(tok.text)
      n  == IF tok.kind = "hash" THEN HashStrip ELSE 2
      t1 == TrimCells(DropChars(t0, n))
      isTodo == t1 # <<>> /\ StartsWithMarker(t1[1])                    \* IsTodoIdentifier
      t2 == TrimCells(DropChars(t1, MarkerLen(t1[1])))
      t3 == StripColon(t2)
      run == SkipIn(t3, 2, {x \in Range(t3) : RegexCell(x)})
      m  == t3 # <<>> /\ t3[1] = "(" /\ run > 2 /\ run <= Len(t3) /\ t3[run] = ")"
      t4 == IF m THEN StripColon(TrimCells(Drop(t3, run))) ELSE t3
  IN  [panics |-> CharLen(t0) < n,                                       \* slice bounds out of range
       hit |-> isTodo,
       todo |-> IF isTodo
                THEN [file |-> FileName(file), line |-> tok.line,
                      assignee |-> IF m THEN Join(SubSeq(t3, 2, run - 1)) ELSE "",
                      words |-> WordsOf(FormC(t4), 1, "")]             \* handleForMultipleLine, then split at blanks
                ELSE <<>>]

VisitToken ==        \* loop body of BuildComments
  /\ phase = "visit" /\ ti <= Len(tokens)
  /\ LET r == ParseComment(tokens[ti])
     IN  IF r.panics
         THEN panic' = TRUE /\ phase' = "done" /\ UNCHANGED <<ti, todos>>
         ELSE /\ todos' = IF r.hit THEN Append(todos, r.todo) ELSE todos
              /\ ti' = ti + 1 /\ UNCHANGED <<panic, phase>>
  /\ UNCHANGED <<file, filters, src, eof, fi, pos, line, mode, tokStart, tokLine, tokens>>

VisitEnd ==
  /\ phase = "visit" /\ ti > Len(tokens)
  /\ phase' = "done"
  /\ UNCHANGED <<file, filters, src, eof, fi, pos, line, mode, tokStart, tokLine, tokens, ti, todos, panic>>

Finished == phase = "done"
Done == Finished /\ UNCHANGED vars

Next == FilterStep \/ FilterMiss \/ CloseInput \/ LexCode \/ LexSlash \/ LexLineOrHash \/ LexBlock
        \/ LexString \/ LexChar \/ LexTemplate \/ LexEOF \/ VisitToken \/ VisitEnd \/ Done

Spec == Init /\ [][Next]_vars

-----------------------------------------------------------------------------
(* Properties *)

Input == [files |-> <<[name |-> file.name, ext |-> file.ext, cells |-> src]>>, filters |-> filters, via |-> "api"]
Observed == [panic |-> panic, timeout |-> FALSE, wellformed |-> TRUE, todos |-> IF panic THEN <<>> ELSE todos]

\* no comment shape crashes the scan
C17_NoCrashOnAnyShape == ~panic

\* the finished report is exactly what the Reference allows
C17_ReportedExact == Finished => Diff([input |-> Input, observed |-> Observed]) = {}

\* lexer sanity: the line counter is the number of newline cells consumed + 1
C17_LineCounter == phase = "lex" => line = 1 + NLCount(src, 1, pos - 1)

\* generation: every explored text inside the quantifier becomes a replay case for the real code
\* (`machine` = what this Machine reported; compared with the real code as a drift note only)
Emit == (Finished /\ InQuantifier(Input)) =>
          PrintT(<<"CASE", ToJson([input |-> Input, machine |-> [panic |-> panic, todos |-> Observed.todos]])>>)

\* development aid (tlc -continue): print the violating inputs instead of stopping
ShowDiff == Finished => LET d == Diff([input |-> Input, observed |-> Observed])
                        IN  IF d = {} THEN TRUE ELSE PrintT(<<"NOTE", ToJson([input |-> Input, todos |-> Observed.todos, diff |-> d])>>)
=============================================================================
