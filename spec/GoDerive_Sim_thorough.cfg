SPECIFICATION Spec
CONSTANTS MaxDepth = 18
          Budgets = {60, 120, 240, 400}
          NLex = 16
INVARIANTS C20_SentenceOfGrammar C20_AllowanceCoversMinimum C20_Bounded C20_BracketsPair Emit
