------------------------------ MODULE TodoRef ------------------------------
(* Property-level Reference for C17: "every TODO/FIXME comment is reported once with *)
(* its line; nothing else is".  Written from the property statement, not from the    *)
(* code.  Pure operators over the abstract record (JSON shape shared by the TLC       *)
(* generator, the Go renderer and the trace validator):                               *)
(*   rec.input.files   : Seq([name, ext, cells : Seq(STRING)])                        *)
(*   rec.input.filters : Seq(STRING)            the selected extensions               *)
(*   rec.input.via     : "api" | "cli" | "cmd"  (how the real code was driven)        *)
(*   rec.observed      : [panic, timeout, wellformed,                                 *)
(*                        todos : Seq([file, line, assignee, words : Seq(STRING)])]   *)
(* A source text is the concatenation of its CELLS.  A cell is either one of the      *)
(* single special characters  / * # " ' \ ` : ( ) blank tab newline (or "\r\n"), or a *)
(* string that contains none of them (a word, a number, other punctuation).  Two      *)
(* cells that end / begin with an identifier character are never adjacent, so cells   *)
(* are exactly the maximal runs the text consists of (CellsOK checks all of this, so  *)
(* a renderer that breaks the convention is reported, not trusted).                   *)
(* `words` of an observed entry is its message split at white space (projection).     *)
EXTENDS Integers, Sequences, FiniteSets, TLC

Range(s) == {s[i] : i \in DOMAIN s}
NoLine == 1000000                  \* "no line": larger than any line number
Min2(a, b) == IF a < b THEN a ELSE b

-----------------------------------------------------------------------------
(* cell classes *)

TodoVariants  == {a \o b \o c \o d : a \in {"t", "T"}, b \in {"o", "O"}, c \in {"d", "D"}, d \in {"o", "O"}}
FixmeVariants == {a \o b \o c \o d \o e : a \in {"f", "F"}, b \in {"i", "I"}, c \in {"x", "X"}, d \in {"m", "M"}, e \in {"e", "E"}}

WordChars == {"a","b","c","d","e","f","g","h","i","j","k","l","m","n","o","p","q","r","s","t","u","v","w","x","y","z",
              "A","B","C","D","E","F","G","H","I","J","K","L","M","N","O","P","Q","R","S","T","U","V","W","X","Y","Z",
              "0","1","2","3","4","5","6","7","8","9","_"}
SpecialChars == {"/", "*", "#", "\"", "'", "\\", "`", ":", "(", ")", " ", "\t", "\n", "\r"}
SpecialCells == (SpecialChars \ {"\r"}) \cup {"\r\n"}

IsNL(x) == x \in {"\n", "\r\n"}
IsSp(x) == x \in {" ", "\t"}
IsBlank(x) == IsSp(x) \/ IsNL(x)
Ch(x, i) == SubSeq(x, i, i)
FirstCharWord(x) == Len(x) >= 1 /\ Ch(x, 1) \in WordChars
LastCharWord(x)  == Len(x) >= 1 /\ Ch(x, Len(x)) \in WordChars
AllWordChars(x)  == Len(x) >= 1 /\ \A i \in 1..Len(x) : Ch(x, i) \in WordChars

\* the cell begins with the word TODO or FIXME in any letter case
MarkerLen(x) == IF Len(x) >= 4 /\ SubSeq(x, 1, 4) \in TodoVariants THEN 4
                ELSE IF Len(x) >= 5 /\ SubSeq(x, 1, 5) \in FixmeVariants THEN 5 ELSE 0
StartsWithMarker(x) == MarkerLen(x) > 0

CellsOK(c) ==
  /\ \A i \in DOMAIN c : c[i] \in SpecialCells \/ (Len(c[i]) >= 1 /\ \A k \in 1..Len(c[i]) : Ch(c[i], k) \notin SpecialChars)
  /\ \A i \in 1..Len(c) - 1 : ~(LastCharWord(c[i]) /\ FirstCharWord(c[i + 1]))

-----------------------------------------------------------------------------
(* Lexical structure of a source text: where the comments are.                        *)
(* Modes: code, line comment (// to end of line), block comment (from the opening     *)
(* pair to the first closing pair after it), hash comment (# to end of line), string   *)
(* literal "..." on one line with backslash escapes, character literal 'x' or '\x',    *)
(* template literal `...` (may span lines).                                           *)

EscOK == {"\"", "'", "\\", "b", "t", "n", "f", "r", "0"}

RECURSIVE LineEnd(_, _)       \* index of the first newline cell at or after i (Len+1 if none)
LineEnd(c, i) == IF i > Len(c) \/ IsNL(c[i]) THEN i ELSE LineEnd(c, i + 1)

RECURSIVE BlockEnd(_, _)      \* index of the "*" of the first closing pair at or after i, 0 if none
BlockEnd(c, i) == IF i >= Len(c) THEN 0
                  ELSE IF c[i] = "*" /\ c[i + 1] = "/" THEN i ELSE BlockEnd(c, i + 1)

RECURSIVE StrEnd(_, _)        \* index of the closing quote of a string literal, 0 if the literal is ill-formed
StrEnd(c, i) == IF i > Len(c) \/ IsNL(c[i]) THEN 0
                ELSE IF c[i] = "\"" THEN i
                ELSE IF c[i] = "\\" THEN (IF i < Len(c) /\ c[i + 1] \in EscOK THEN StrEnd(c, i + 2) ELSE 0)
                ELSE StrEnd(c, i + 1)

\* index of the closing quote of a character literal whose opening quote is at i-1, 0 if ill-formed
CharEnd(c, i) ==
  IF i + 2 <= Len(c) /\ c[i] = "\\" /\ c[i + 1] \in EscOK /\ c[i + 2] = "'" THEN i + 2
  ELSE IF i + 1 <= Len(c) /\ Len(c[i]) = 1 /\ c[i] \notin {"'", "\\", "\n"} /\ c[i + 1] = "'" THEN i + 1
  ELSE 0

RECURSIVE TplEnd(_, _)        \* index of the closing back-quote, 0 if none or if the literal contains a backslash
TplEnd(c, i) == IF i > Len(c) THEN 0
                ELSE IF c[i] = "`" THEN i
                ELSE IF c[i] = "\\" THEN 0            \* Free_C17_TemplateEscapes (see below)
                ELSE TplEnd(c, i + 1)

NLCount(c, a, b) == Cardinality({k \in a..b : IsNL(c[k])})

Com(k, l, t) == [kind |-> k, line |-> l, text |-> t]

(* Scan: the comments of a text, in source order, each with the line it starts on and *)
(* its text (the cells after the marker; for a block comment without the closing pair)*)
(*   freeFrom : entries on lines >= freeFrom are not judged                           *)
(*   inq      : the text is inside the property's quantifier                          *)
(* Free_C17_UnterminatedBlock: the statement only demands that an unterminated        *)
(*   comment at end of file does not crash the scan; whether it (or anything in it)   *)
(*   is reported is not stated => everything from its first line on is free.          *)
(* Free_C17_IllFormedSource: the quantifier ranges over texts built from code tokens, *)
(*   literals and comments.  An unterminated / over-long literal, an unknown escape   *)
(*   or a stray backslash is none of these => from that line on nothing is judged,    *)
(*   and not even a crash is charged (inq = FALSE).  Single-quoted *strings*          *)
(*   (Python/JS) fall here too.                                                       *)
(* Free_C17_TemplateEscapes: a back-quoted literal containing a backslash: the        *)
(*   statement does not say which dialect's escape rules apply => treated like an     *)
(*   ill-formed literal.                                                              *)
RECURSIVE Scan(_, _, _, _)
Scan(c, i, line, coms) ==
  IF i > Len(c) THEN [coms |-> coms, freeFrom |-> NoLine, inq |-> TRUE]
  ELSE LET x == c[i]
           ill == [coms |-> coms, freeFrom |-> line, inq |-> FALSE]
       IN
    IF IsNL(x) THEN Scan(c, i + 1, line + 1, coms)
    ELSE IF x = "#" THEN
      LET e == LineEnd(c, i + 1) IN Scan(c, e, line, Append(coms, Com("hash", line, SubSeq(c, i + 1, e - 1))))
    ELSE IF x = "/" /\ i < Len(c) /\ c[i + 1] = "/" THEN
      LET e == LineEnd(c, i + 2) IN Scan(c, e, line, Append(coms, Com("line", line, SubSeq(c, i + 2, e - 1))))
    ELSE IF x = "/" /\ i < Len(c) /\ c[i + 1] = "*" THEN
      LET e == BlockEnd(c, i + 2)
      IN  IF e = 0 THEN [coms |-> coms, freeFrom |-> line, inq |-> TRUE]
          ELSE Scan(c, e + 2, line + NLCount(c, i + 2, e - 1), Append(coms, Com("block", line, SubSeq(c, i + 2, e - 1))))
    ELSE IF x = "\"" THEN
      LET e == StrEnd(c, i + 1) IN IF e = 0 THEN ill ELSE Scan(c, e + 1, line, coms)
    ELSE IF x = "'" THEN
      LET e == CharEnd(c, i + 1) IN IF e = 0 THEN ill ELSE Scan(c, e + 1, line, coms)
    ELSE IF x = "`" THEN
      LET e == TplEnd(c, i + 1) IN IF e = 0 THEN ill ELSE Scan(c, e + 1, line + NLCount(c, i + 1, e - 1), coms)
    ELSE IF x = "\\" THEN ill
    ELSE Scan(c, i + 1, line, coms)

Lex(c) == Scan(c, 1, 1, <<>>)

-----------------------------------------------------------------------------
(* What a comment obliges the report to contain *)

RECURSIVE SkipIn(_, _, _)     \* first index >= i whose cell is not in S (Len+1 if none)
SkipIn(t, i, S) == IF i > Len(t) \/ t[i] \notin S THEN i ELSE SkipIn(t, i + 1, S)

Sps == {" ", "\t"}
Blanks == {" ", "\t", "\n", "\r\n"}
Drop(s, n) == SubSeq(s, n + 1, Len(s))
StripB(s) == Drop(s, SkipIn(s, 1, Blanks) - 1)
Colons(s) == SkipIn(s, 1, {":"}) - 1            \* number of leading colons

\* extra cells that may stand between the marker and the word as decoration:
\* Free_C17_Decoration: "/** TODO", "/*\n * TODO": a block comment whose word is preceded by
\*   `*` decoration or stands on a later line may or may not be reported ("blanks" in the
\*   statement are read as spaces/tabs; a newline before the word is not promised).
\* Free_C17_RepeatedMarker: "## TODO", "/// TODO": the statement does not say whether a
\*   repeated marker character belongs to the marker => may or may not be reported.
Decor(kind) == CASE kind = "block" -> {" ", "\t", "\n", "\r\n", "*"}
                 [] kind = "line"  -> {" ", "\t", "/"}
                 [] kind = "hash"  -> {" ", "\t", "#"}

\* the text after the word: remainder of a longer cell (TODOs -> "s") followed by the rest
AfterWord(t, j) == LET ml == MarkerLen(t[j])
                   IN  (IF Len(t[j]) > ml THEN <<SubSeq(t[j], ml + 1, Len(t[j]))>> ELSE <<>>) \o Drop(t, j)

\* colon handling: a colon directly after the marker / the assignee is punctuation of the
\* marker, not message text (at least one is dropped, Free_C17_ColonRun: of a run "::" any
\* number >= 1); after blanks it is free whether it is dropped (Free_C17_ColonAfterBlank).
ColonOpts(s) == LET r == StripB(s)
                    k == Colons(r)
                    adj == r = s
                IN  {[rest |-> StripB(Drop(r, n)), direct |-> adj /\ n = 0] :
                       n \in (IF k = 0 THEN {0} ELSE IF adj THEN 1..k ELSE 0..k)}

\* a parenthesised group at the head of s: index of its ")" or 0
GroupEnd(s) == IF Len(s) >= 2 /\ s[1] = "("
               THEN LET g == SkipIn(s, 2, {x \in Range(s) : x \notin {"(", ")", "\n", "\r\n"}})
                    IN  IF g <= Len(s) /\ s[g] = ")" THEN g ELSE 0
               ELSE 0

Cand(a, any, r) == [asg |-> a, any |-> any, rest |-> r]

(* Candidates: the (assignee, message) readings of the text after the word that the   *)
(* statement allows.  "(name)" directly after the word, name one identifier: the        *)
(* assignee is required.  "()" is no name: no assignee.                                 *)
(* Free_C17_AssigneeApart: blanks or a colon between word and "(name)": either reading. *)
(* Free_C17_AssigneeShape: a group that is not a single identifier ("(a b)", "(a.b)",   *)
(*   "( a )"): may or may not be taken as assignee, with any assignee text.             *)
Candidates(rest) ==
  UNION {
    LET s == o.rest
        g == GroupEnd(s)
        inner == SubSeq(s, 2, g - 1)
        plain == {Cand("", FALSE, s)}
        after == {p.rest : p \in ColonOpts(Drop(s, g))}
    IN  IF g = 0 \/ inner = <<>> THEN plain
        ELSE IF Len(inner) = 1 /\ AllWordChars(inner[1])
             THEN {Cand(inner[1], FALSE, r) : r \in after} \cup (IF o.direct THEN {} ELSE plain)
             ELSE {Cand("", TRUE, r) : r \in after} \cup plain
    : o \in ColonOpts(rest)}

\* need: "must" (exactly one entry), "may" (free), "no" (must not be reported)
\* Free_C17_WordContinues: "TODOs", "todo_list": the statement says "begins with TODO";
\*   whether a longer identifier counts is not stated => free.
Oblige(com) ==
  LET t  == com.text
      j0 == SkipIn(t, 1, Sps)
      j1 == SkipIn(t, 1, Decor(com.kind))
      head(j) == j <= Len(t) /\ StartsWithMarker(t[j])
      longer(j) == Len(t[j]) > MarkerLen(t[j])
  IN  IF head(j0) THEN [line |-> com.line, need |-> IF longer(j0) THEN "may" ELSE "must", cands |-> Candidates(AfterWord(t, j0))]
      ELSE IF head(j1) THEN [line |-> com.line, need |-> "may", cands |-> Candidates(AfterWord(t, j1))]
      ELSE [line |-> com.line, need |-> "no", cands |-> {}]

-----------------------------------------------------------------------------
(* The message: "the remaining text".  Compared as the sequence of its words.          *)
(* Free_C17_StarNormalised: the statement does not say how the `*` decoration of a      *)
(*   multi-line comment is told from message text, so three normal forms are accepted:  *)
(*   A  every `*` separates words;   C  every `*` and every "*" "/" pair separates      *)
(*   words;   D  only the `*` that begin a continuation line are dropped.               *)

RECURSIVE WordsOf(_, _, _)     \* split at blank cells, concatenate the cells between
WordsOf(s, i, cur) ==
  IF i > Len(s) THEN (IF cur = "" THEN <<>> ELSE <<cur>>)
  ELSE IF IsBlank(s[i]) THEN (IF cur = "" THEN <<>> ELSE <<cur>>) \o WordsOf(s, i + 1, "")
  ELSE WordsOf(s, i + 1, cur \o s[i])

FormA(s) == [i \in DOMAIN s |-> IF s[i] = "*" THEN " " ELSE s[i]]
FormC(s) == [i \in DOMAIN s |-> IF s[i] = "*" \/ (s[i] = "/" /\ i > 1 /\ s[i - 1] = "*") THEN " " ELSE s[i]]
DecorStar(s, i) == /\ s[i] = "*"
                   /\ \E n \in 1..i - 1 : IsNL(s[n]) /\ \A k \in n + 1..i - 1 : IsSp(s[k]) \/ s[k] = "*"
FormD(s) == [i \in DOMAIN s |-> IF DecorStar(s, i) THEN " " ELSE s[i]]
MsgForms(s) == {WordsOf(FormA(s), 1, ""), WordsOf(FormC(s), 1, ""), WordsOf(FormD(s), 1, "")}

Accept(o, e) == \E c \in e.cands : (c.any \/ o.assignee = c.asg) /\ o.words \in MsgForms(c.rest)

\* observed entries of one line against the comments that start on that line (source order);
\* "may" comments can be skipped
RECURSIVE MatchSeq(_, _)
MatchSeq(O, E) ==
  IF O = <<>> THEN \A i \in DOMAIN E : E[i].need = "may"
  ELSE IF E = <<>> THEN FALSE
  ELSE \/ (Accept(O[1], E[1]) /\ MatchSeq(Tail(O), Tail(E)))
       \/ (E[1].need = "may" /\ MatchSeq(O, Tail(E)))

\* the statement fixes no order of the report: any order of the entries of a line is accepted
MatchLine(O, E) ==
  IF Len(O) <= 3
  THEN \E p \in Permutations(DOMAIN O) : MatchSeq([i \in DOMAIN O |-> O[p[i]]], E)
  ELSE MatchSeq(O, E)

-----------------------------------------------------------------------------
(* Diff *)

Item(k, w, t) == [prop |-> "C17", kind |-> k, where |-> w, tags |-> t]

FileName(f) == f.name \o f.ext
\* "a selected extension": the file name ends with one of the selected extensions (api.d.ts is selected by .d.ts and by .ts,
\* main.ts by .ts only)
Selected(in, f) == \E k \in DOMAIN in.filters :
                     LET flt == in.filters[k]
                     IN  Len(flt) <= Len(f.ext) /\ SubSeq(f.ext, Len(f.ext) - Len(flt) + 1, Len(f.ext)) = flt

DiffFile(in, f, obs) ==      \* obs: the observed entries naming this file, in report order
  LET fname == FileName(f) IN
  IF ~Selected(in, f)
  THEN (IF obs = <<>> THEN {} ELSE {Item("unselected-file-scanned", fname, {})})
  ELSE
    LET lx  == Lex(f.cells)
        all == [i \in DOMAIN lx.coms |-> Oblige(lx.coms[i])]
        exp == SelectSeq(all, LAMBDA e : e.need # "no" /\ e.line < lx.freeFrom)
        ob  == SelectSeq(obs, LAMBDA o : o.line < lx.freeFrom)
        lines == {exp[i].line : i \in DOMAIN exp} \cup {ob[i].line : i \in DOMAIN ob}
        at(L) == fname \o ":" \o ToString(L)
        one(L) == LET E == SelectSeq(exp, LAMBDA e : e.line = L)
                      O == SelectSeq(ob, LAMBDA o : o.line = L)
                  IN  IF MatchLine(O, E) THEN {}
                      ELSE IF O = <<>> THEN {Item("missing-entry", at(L), {})}
                      ELSE IF E = <<>> THEN {Item("spurious-entry", at(L), {})}
                      ELSE {Item("wrong-entry", at(L), {})}
    IN  UNION {one(L) : L \in lines}

InQuantifier(in) == \A i \in DOMAIN in.files : Selected(in, in.files[i]) => Lex(in.files[i].cells).inq

InputOK(in) == /\ \A i \in DOMAIN in.files : CellsOK(in.files[i].cells)
               /\ \A i, j \in DOMAIN in.files : i # j => FileName(in.files[i]) # FileName(in.files[j])

Diff(rec) ==
  LET in == rec.input
      o  == rec.observed
      names == {FileName(in.files[i]) : i \in DOMAIN in.files}
  IN  IF ~InputOK(in) THEN {Item("harness-bad-input", "", {})}
      ELSE IF o.panic THEN (IF InQuantifier(in) THEN {Item("panic", "", {})} ELSE {})
      ELSE IF o.timeout THEN (IF InQuantifier(in) THEN {Item("no-termination", "", {})} ELSE {})
      ELSE IF ~o.wellformed THEN {Item("malformed-report", "", {})}
      ELSE UNION {DiffFile(in, in.files[i], SelectSeq(o.todos, LAMBDA e : e.file = FileName(in.files[i]))) : i \in DOMAIN in.files}
           \cup {Item("spurious-entry", o.todos[k].file, {}) : k \in {n \in DOMAIN o.todos : o.todos[n].file \notin names}}
=============================================================================
