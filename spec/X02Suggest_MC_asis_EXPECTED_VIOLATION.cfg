\* the code as it is (no repair): the Machine violates X02_SuggestionsExact (merged size/line 0; "too many parameters"
\* from a first function that is not a constructor).  Not part of a check; `tlc -continue` + INVARIANT ShowDiff lists all.
SPECIFICATION Spec
CONSTANTS
  MaxClasses = 1
  MaxFuncs = 3
  Types = {"Class", "Interface"}
  Shapes <- ShapesQuick
  LongestInit = "first-function"
  MergeKeeps = "nothing"
INVARIANTS X02_SuggestionsExact X02_OnePerClass X02_CounterRegister
