\* java: every Java tree over 13 candidate members (test names, a name containing "testData", an ignored directory, a
\* directory named like a Java file, a src/test/java root, a testData directory) x the walkers code and test x 3 ways of
\* naming a plain root x every .gitignore of <= 1 line over 7 lines (or none); the repaired settings (X07-1..3.patch)
SPECIFICATION Spec
CONSTANTS
  Universe <- UniverseJava
  Walkers = {"code", "test"}
  Roots <- RootsPlain
  Patterns <- PatternsJava
  MaxLines = 1
  PathBase = "relative"
  TestDataTest = "directory"
  DirTest = "isdir"
INVARIANTS X07_Exact X07_Slice Emit
