\* the code as it is (no repair): the Machine violates X03_LinkValues (a pair linked twice keeps value 1) and
\* X03_NodesExact / X03_LinksExact (a call without class becomes the node "<package>.").  Not part of a check;
\* run with `tlc -continue` and INVARIANT ShowDiff to list every violating model.
SPECIFICATION Spec
CONSTANTS
  MaxDeps = 2
  MaxCalls = 2
  Pkgs = {"", "x"}
  ClassNames = {"y", "Z"}
  CalleeNames = {"y", "Z", ""}
  ValueLoop = "copy"
  CalleeTest = "fullname"
  KeyForm = "concat"
INVARIANTS X03_NodesExact X03_LinksExact X03_LinkValues X03_Groups X03_CounterTable
