------------------------------ MODULE ArchRef ------------------------------
(* Property-level Reference for the architecture graph (C13).                          *)
(* Pure operators over one trace record  rec = [case, input, observed]:               *)
(*   input.types  : Seq([pkg : Seq(String), name : String,                            *)
(*                       impls : Seq(String), ext : String ("" = none),               *)
(*                       fields : Seq([pkg : String, node : String]),                 *)
(*                       methods : Seq([name : String, calls : Seq([pkg, node])])])   *)
(*   input.filter : Seq(String)    include filter: a node is included iff its name    *)
(*                                 contains one of the strings; <<>> includes all     *)
(*   input.mergeH, input.mergeP : BOOLEAN   merge-header / merge-package              *)
(*   input.via    : "api" | "cli"                                                     *)
(*   observed = [panic, hasGraph,                                                     *)
(*               graph : [nodes : Seq(String), relations : Seq(<<from, to>>)],        *)
(*               final : same shape (the graph handed to the DOT writer),             *)
(*               dot : [wellformed, nodes : Seq([id, label, path : Seq(String)]),     *)
(*                      edges : Seq(<<id, id>>)]]                                     *)
(* Written from the property statement. A type of the model is identified by          *)
(* package "." name (the model's own identity of a type); supertypes are strings of   *)
(* the model, field / call targets are (package, type) pairs of the model.            *)
EXTENDS Naturals, Sequences, FiniteSets, TLC

Range(s) == {s[i] : i \in DOMAIN s}

RECURSIVE JoinFrom(_, _, _)
JoinFrom(segs, i, sep) ==
  IF i > Len(segs) THEN ""
  ELSE IF i = Len(segs) THEN segs[i]
  ELSE segs[i] \o sep \o JoinFrom(segs, i + 1, sep)
Join(segs, sep) == JoinFrom(segs, 1, sep)

\* f occurs in s
Contains(s, f) ==
  LET n == Len(s)
      m == Len(f)
  IN  m = 0 \/ (m <= n /\ \E i \in 1..(n - m + 1) : SubSeq(s, i, i + m - 1) = f)

PkgStr(t)   == Join(t.pkg, ".")
Full(t)     == PkgStr(t) \o "." \o t.name       \* identity of a type in the model
TargetId(c) == c.pkg \o "." \o c.node           \* identity of the type a field / call resolves to

Types(in)   == Range(in.types)
Project(in) == {Full(t) : t \in Types(in)}                         \* project types (Main included)
NodeTypes(in) == {t \in Types(in) : t.name # "Main"}               \* "the entry class Main excluded"
Nodes(in)   == {Full(t) : t \in NodeTypes(in)}

\* "A implements or extends B, has a field whose type resolves to B"
Hard(t) == Range(t.impls) \cup (IF t.ext = "" THEN {} ELSE {t.ext}) \cup {TargetId(f) : f \in Range(t.fields)}
\* the architecture graph: edges between two nodes
Edges(in) ==
  LET ns == Nodes(in)
      pr == Project(in)
      \* "a method of A (other than main) calls a method of a project type B different from A"
      called(t) == (UNION {{TargetId(c) : c \in Range(m.calls)} : m \in {x \in Range(t.methods) : x.name # "main"}})
                     \cap (pr \ {Full(t)})
  IN  UNION {{<<Full(t), b>> : b \in (Hard(t) \cup called(t)) \cap ns} : t \in NodeTypes(in)}

-----------------------------------------------------------------------------
(* Merging: the quotient by the package function *)

Merged(in) == in.mergeH \/ in.mergeP

\* merge-header: the package of the type; merge-package: its top-level package.
\* Free_BothMerges: the statement does not define the combination of both switches; the
\* sequential reading is adopted (merge by package, then merge the package names by their
\* own package): a package with a parent goes to its top-level segment, a top-level (or the
\* unnamed) package has no package of its own and goes to the unnamed group, which coca
\* labels "main".
PkgOf(in, t) ==
  CASE in.mergeH /\ ~in.mergeP -> PkgStr(t)
    [] ~in.mergeH /\ in.mergeP -> (IF t.pkg = <<>> THEN "" ELSE t.pkg[1])
    [] in.mergeH /\ in.mergeP  -> (IF Len(t.pkg) >= 2 THEN t.pkg[1] ELSE "main")
    [] OTHER                   -> Full(t)

\* Free_DeepPackage: `merge-package` keeps a longer prefix for names of more than 7 segments;
\* the statement speaks of "the package function" only, so such models are not judged on the
\* merged graph. Free_SegmentMain: a package segment literally called "main" can coincide
\* with the label of the unnamed group when both switches are on.
FreeMerge(in) ==
  \/ in.mergeP /\ \E t \in Types(in) : Len(t.pkg) > 6
  \/ in.mergeH /\ in.mergeP /\ \E t \in Types(in) : t.pkg # <<>> /\ t.pkg[1] = "main"

F(in) == [n \in Nodes(in) |-> PkgOf(in, CHOOSE t \in NodeTypes(in) : Full(t) = n)]
QNodes(in) == {F(in)[n] : n \in Nodes(in)}
QEdges(in) == LET f == F(in)
                  es == Edges(in)
              IN  {<<f[e[1]], f[e[2]]>> : e \in {x \in es : f[x[1]] # f[x[2]]}}

\* the graph the DOT is drawn from
FinalEdges(in) == IF Merged(in) THEN QEdges(in) ELSE Edges(in)

Included(in, name) == in.filter = <<>> \/ \E i \in DOMAIN in.filter : Contains(name, in.filter[i])

-----------------------------------------------------------------------------
(* Diff *)

ItemT(k, w, t) == [prop |-> "C13", kind |-> k, where |-> w, tags |-> t]
Item(k, w) == ItemT(k, w, {})

EdgeSet(rs) == {<<rs[i][1], rs[i][2]>> : i \in DOMAIN rs}
Show(e) == e[1] \o " -> " \o e[2]

\* Free_DanglingRelation: the statement constrains edges "between two of them" (two nodes);
\* recorded relations with an end that is not a node (library types, absent types, Main) are
\* neither required nor forbidden.
Between(ns, es) == {e \in es : e[1] \in ns /\ e[2] \in ns}

GraphDiff(kindN, kindE, expN, expE, g) ==
  LET ons == Range(g.nodes)
      oes == Between(expN, EdgeSet(g.relations))
  IN  {Item("missing-" \o kindN, n) : n \in expN \ ons} \cup
      {Item("spurious-" \o kindN, n) : n \in ons \ expN} \cup
      (IF Len(g.nodes) # Cardinality(ons) THEN {Item("duplicate-" \o kindN, "")} ELSE {}) \cup
      {Item("missing-" \o kindE, Show(e)) : e \in expE \ oes} \cup
      {Item("spurious-" \o kindE, Show(e)) : e \in oes \ expE}

\* the name a drawn node stands for: cluster labels from the outside in, then its own label
Shown(n) == Join(n.path \o <<n.label>>, ".")

DotDiff(in, d) ==
  LET ids      == {d.nodes[i].id : i \in DOMAIN d.nodes}
      des      == EdgeSet(d.edges)
      merged   == Merged(in)
      nts      == NodeTypes(in)
      fe       == FinalEdges(in)
      qn       == IF merged THEN QNodes(in) ELSE {}
      inc      == {t \in nts : Included(in, Full(t))}
      \* unmerged: a type is shown by a node labelled with its name under clusters labelled with its package path
      shownAs(t) == {i \in DOMAIN d.nodes : d.nodes[i].path = t.pkg /\ d.nodes[i].label = t.name}
      typeOf   == [i \in DOMAIN d.nodes |-> {t \in nts : d.nodes[i].path = t.pkg /\ d.nodes[i].label = t.name}]
      \* the graph node a drawn node stands for (known[i] = FALSE: none)
      nameOf   == [i \in DOMAIN d.nodes |->
                     IF merged THEN Shown(d.nodes[i])
                     ELSE IF typeOf[i] = {} THEN "?" ELSE Full(CHOOSE t \in typeOf[i] : TRUE)]
      known    == [i \in DOMAIN d.nodes |-> IF merged THEN nameOf[i] \in qn ELSE typeOf[i] # {}]
      idxOf(x) == CHOOSE i \in DOMAIN d.nodes : d.nodes[i].id = x
      \* the drawn nodes that stand for the graph node called nm
      drawnFor(nm) == {i \in DOMAIN d.nodes : known[i] /\ nameOf[i] = nm}
  IN  IF ~d.wellformed THEN {Item("dot-malformed", "")} ELSE
      \* "draws an edge only between displayed nodes"
      {Item("dot-edge-to-undisplayed", Show(e)) : e \in {x \in des : x[1] \notin ids \/ x[2] \notin ids}} \cup
      (IF Cardinality(ids) # Len(d.nodes) THEN {Item("dot-node-id-reused", "")} ELSE {}) \cup
      (IF FreeMerge(in) THEN {} ELSE
         \* ... and only edges of the graph (an edge to a filtered-out or external node must be dropped, not re-attached)
         {Item("dot-edge-not-in-graph", Show(<<nameOf[idxOf(e[1])], nameOf[idxOf(e[2])]>>)) :
            e \in {x \in des : x[1] \in ids /\ x[2] \in ids /\ known[idxOf(x[1])] /\ known[idxOf(x[2])]
                               /\ <<nameOf[idxOf(x[1])], nameOf[idxOf(x[2])]>> \notin fe}} \cup
         \* ... and all of them: the DOT is the graph restricted to the displayed nodes (see Decision_DotInduced)
         {Item("dot-edge-missing", Show(e)) :
            e \in {x \in fe : drawnFor(x[1]) # {} /\ drawnFor(x[2]) # {} /\
                                           ~\E a \in drawnFor(x[1]), b \in drawnFor(x[2]) : <<d.nodes[a].id, d.nodes[b].id>> \in des}} \cup
         (IF ~merged
          THEN \* "shows each included type once under its package path"
               {Item("dot-type-missing", Full(t)) : t \in {x \in inc : shownAs(x) = {}}} \cup
               {Item("dot-type-repeated", Full(t)) : t \in {x \in inc : Cardinality(shownAs(x)) > 1}} \cup
               {Item("dot-node-not-an-included-type", Shown(d.nodes[i])) :
                  i \in {j \in DOMAIN d.nodes : \A t \in inc : j \notin shownAs(t)}}
          ELSE \* Free_MergedDisplay: the nodes of a merged graph are packages; a package that has
               \* sub-packages is an interior node of the package tree. The statement speaks of types
               \* only, so for merged graphs a drawn node must be an included package, drawn once;
               \* which of the included packages are drawn is not judged.
               \* What IS judged: an included package must be visible at all - as a drawn node of its
               \* name or as a cluster on the path of a drawn node (a package that is neither is not
               \* "shown"; the unnamed package has no name to be shown under).
               {Item("dot-package-missing", q) :
                  q \in {x \in qn : x # "" /\ Included(in, x) /\
                           ~\E i \in DOMAIN d.nodes :
                               LET s == Shown(d.nodes[i])
                               IN  s = x \/ (Len(s) > Len(x) /\ SubSeq(s, 1, Len(x) + 1) = x \o ".")}} \cup
               {Item("dot-node-not-an-included-package", Shown(d.nodes[i])) :
                  i \in {j \in DOMAIN d.nodes : ~(known[j] /\ Included(in, nameOf[j]))}} \cup
               {Item("dot-package-repeated", Shown(d.nodes[i])) :
                  i \in {j \in DOMAIN d.nodes : \E k \in DOMAIN d.nodes : k # j /\ nameOf[k] = nameOf[j]}}))
\* Decision_DotInduced: "draws an edge only between displayed nodes" is read as: the edges drawn
\* are the edges of the (merged) graph whose two ends are displayed - none that is not an edge of
\* the graph (an edge to a filtered-out or external node is dropped, not re-attached), and none of
\* those missing (the title: edges are exactly the type dependencies).

Diff(rec) ==
  LET in == rec.input
      o  == rec.observed
  IN  IF o.panic THEN {Item("panic", "")} ELSE
      (IF o.hasGraph
       THEN GraphDiff("node", "edge", Nodes(in), Edges(in), o.graph) \cup
            (IF Merged(in) /\ ~FreeMerge(in)
             THEN GraphDiff("merged-node", "merged-edge", QNodes(in), QEdges(in), o.final)
             ELSE {})
       ELSE {}) \cup
      DotDiff(in, o.dot)
=============================================================================
