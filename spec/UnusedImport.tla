--------------------------- MODULE UnusedImport ---------------------------
(* Machine of unused.RemoveUnusedImportApp (C06): Analysis over a directory of files  *)
(* (one identifier value per file carrying its own import/reference tables and path,  *)
(* fix: unused-import removal keeps the analysis tables ...), then Refactoring: per   *)
(* file BuildErrorLines, removeImportByLines with its shifting counter, removeLine as *)
(* a read-modify-write of the whole file; followed by a second complete run.          *)
(* A file is a sequence of lines <<id, kind>>, kind in                                *)
(*   "U" unused single-type import, "K" used import, "W" wildcard import, "O" other.  *)
EXTENDS Naturals, Integers, Sequences, FiniteSets, TLC, Json

CONSTANTS MaxFiles, MaxLines

Kinds == {"U", "K", "W", "O"}
FileSpace == UNION {[1..n -> Kinds] : n \in 1..MaxLines}
Mk(ks) == [i \in DOMAIN ks |-> <<i, ks[i]>>]

VARIABLES orig,      \* the directory as given: Seq(file), file = Seq(<<id, kind>>)
          disk,      \* current contents
          run,       \* 1 or 2
          phase,     \* "analysis" | "refactor" | "done"
          nodes,     \* result of Analysis: Seq([path, errorLines])
          fi,        \* refactoring: index of the node being processed
          ei,        \* index into its errorLines
          removed    \* removedErrorCount of removeImportByLines
vars == <<orig, disk, run, phase, nodes, fi, ei, removed>>

Init == /\ orig \in UNION {[1..n -> {Mk(ks) : ks \in FileSpace}] : n \in 1..MaxFiles}
        /\ disk = orig /\ run = 1 /\ phase = "analysis" /\ nodes = <<>> /\ fi = 1 /\ ei = 1 /\ removed = 1

\* BuildErrorLines: start lines of the imports whose simple name is referenced nowhere (wildcards are kept)
ErrorLines(f) == SelectSeq([i \in DOMAIN f |-> i], LAMBDA i : f[i][2] = "U")

\* Analysis of the next file of the directory walk
Analyse ==
  /\ phase = "analysis"
  /\ IF Len(nodes) < Len(disk)
     THEN /\ nodes' = Append(nodes, [path |-> Len(nodes) + 1, errorLines |-> ErrorLines(disk[Len(nodes) + 1])])
          /\ UNCHANGED <<phase, fi, ei, removed>>
     ELSE /\ phase' = "refactor" /\ fi' = 1 /\ ei' = 1 /\ removed' = 1 /\ UNCHANGED nodes
  /\ UNCHANGED <<orig, disk, run>>

RemoveAt(f, k) == SubSeq(f, 1, k - 1) \o SubSeq(f, k + 1, Len(f))   \* k is 1-based here (array index k-1 in the code)

\* one removeLine call: newStart = line - removedErrorCount (0-based array index), i.e. 1-based line - (removed - 1)
RemoveOne ==
  /\ phase = "refactor" /\ fi <= Len(nodes) /\ ei <= Len(nodes[fi].errorLines)
  /\ LET line == nodes[fi].errorLines[ei]
         p == nodes[fi].path
     IN  disk' = [disk EXCEPT ![p] = RemoveAt(@, line - (removed - 1))]
  /\ ei' = ei + 1 /\ removed' = removed + 1
  /\ UNCHANGED <<orig, run, phase, nodes, fi>>

NextNode ==
  /\ phase = "refactor" /\ fi <= Len(nodes) /\ ei > Len(nodes[fi].errorLines)
  /\ fi' = fi + 1 /\ ei' = 1 /\ removed' = 1
  /\ UNCHANGED <<orig, disk, run, phase, nodes>>

EndRun ==
  /\ phase = "refactor" /\ fi > Len(nodes)
  /\ IF run = 1 THEN run' = 2 /\ phase' = "analysis" /\ nodes' = <<>>
     ELSE run' = run /\ phase' = "done" /\ UNCHANGED nodes
  /\ UNCHANGED <<orig, disk, fi, ei, removed>>

Done == phase = "done" /\ UNCHANGED vars
Next == Analyse \/ RemoveOne \/ NextNode \/ EndRun \/ Done
Spec == Init /\ [][Next]_vars /\ WF_vars(Next)

-----------------------------------------------------------------------------
Cleaned(f) == SelectSeq(f, LAMBDA l : l[2] # "U")           \* Reference: the original minus exactly the unused single-type imports

\* at the end of a run every file is the Reference result (every file cleaned, nothing else deleted); the second run changes nothing
C06_OnlyUnusedImportLinesDeleted == (phase = "refactor" /\ fi > Len(nodes)) => \A p \in DOMAIN orig : disk[p] = Cleaned(orig[p])
C06_Idempotent == phase = "done" => \A p \in DOMAIN orig : disk[p] = Cleaned(orig[p])
\* during a run only unused-import lines disappear, and lines keep their order
C06_NothingElseDeleted == \A p \in DOMAIN orig : Cleaned(disk[p]) = Cleaned(orig[p])
C06_Terminates == <>(phase = "done")

Emit == phase = "done" => PrintT(<<"CASE", ToJson([files |-> [p \in DOMAIN orig |-> [k \in DOMAIN orig[p] |-> orig[p][k][2]]]])>>)
=============================================================================
