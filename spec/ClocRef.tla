------------------------------ MODULE ClocRef ------------------------------
(* Property-level Reference for C16: "per-directory line counts add up and agree     *)
(* with the whole-tree count" (`coca cloc DIR --by-directory`, `--top-file`).         *)
(* Written from the property statement, not from the code.  Pure operators over the   *)
(* abstract record (JSON shape shared by the TLC generator, the Go renderer and the   *)
(* trace validator):                                                                  *)
(*   rec.input.root   : STRING   how DIR is passed: "." (the tree is the working      *)
(*                      directory), a relative path ("tree", "w/tree") or "@/tree"    *)
(*                      (absolute path under the scratch directory)                   *)
(*   rec.input.modes  : Seq("bydir" | "top")       the commands run on the tree       *)
(*   rec.input.ext    : Seq(STRING)                --include-ext (<<>> = no filter)   *)
(*   rec.input.top    : Nat                        --top-size                         *)
(*   rec.input.dirs   : Seq(STRING)  names of ALL immediate sub-directories (also     *)
(*                      empty ones and .git/.svn/.hg/.idea/coca_reporter)             *)
(*   rec.input.files  : Seq([dir  : STRING  ("" = directly in DIR, else an element    *)
(*                                           of dirs),                                *)
(*                            path : STRING  path below dir, may contain "/",         *)
(*                            lang : STRING  language name as the counter names it,   *)
(*                            ext  : STRING  file extension (lower case),             *)
(*                            code, comment, blank : Nat   ground truth: the renderer *)
(*                            writes exactly that many pure code / pure comment /     *)
(*                            blank lines, lay : Nat layout seed (ignored here)])     *)
(*   rec.facts.root   : STRING   the DIR argument literally passed to coca            *)
(*   rec.observed     : [panic : BOOLEAN,                                             *)
(*      bydir : [ran, exit, stdout : Table, csv : Table]                              *)
(*              Table = [ok, header : Seq(STRING),                                    *)
(*                       rows : Seq([name, summary : Int, cells : Seq(Int)])]         *)
(*      top   : [ran, exit, tablesok, jsonok,                                         *)
(*               tables : Seq([lang, rows : Seq([code, complexity, loc])]),           *)
(*               json   : Seq([lang, files : Seq([loc, code, comment, blank, lines])])]] *)
EXTENDS Integers, Sequences, FiniteSets, TLC

Range(s) == {s[i] : i \in DOMAIN s}
Min2(a, b) == IF a < b THEN a ELSE b
Item(k, w, t) == [prop |-> "C16", kind |-> k, where |-> w, tags |-> t]

\* "a VCS/IDE/report directory": the statement's quantifier names .git, .idea and
\* coca_reporter; .svn and .hg are the other two VCS directories of the same kind.
Ignored == {".git", ".svn", ".hg", ".idea", "coca_reporter"}

-----------------------------------------------------------------------------
(* the tree *)

Idx(in) == DOMAIN in.files
F(in, i) == in.files[i]
Passing(in, i) == in.ext = <<>> \/ F(in, i).ext \in Range(in.ext)
Lines(f) == f.code + f.comment + f.blank
Rel(in, i) == IF F(in, i).dir = "" THEN F(in, i).path ELSE F(in, i).dir \o "/" \o F(in, i).path

\* files that certainly belong to the report / files inside VCS, IDE or report directories
MustIdx(in) == {i \in Idx(in) : Passing(in, i) /\ F(in, i).dir \notin Ignored}
MayIdx(in)  == {i \in Idx(in) : Passing(in, i) /\ F(in, i).dir \in Ignored}

InputOK(in) ==
  /\ \A i, j \in DOMAIN in.dirs : i # j => in.dirs[i] # in.dirs[j]
  /\ \A i \in Idx(in) : F(in, i).dir = "" \/ F(in, i).dir \in Range(in.dirs)
  /\ \A i, j \in Idx(in) : i # j => Rel(in, i) # Rel(in, j)
  /\ \A i \in Idx(in) : F(in, i).code >= 0 /\ F(in, i).comment >= 0 /\ F(in, i).blank >= 0
  /\ in.top >= 0

RECURSIVE SumCode(_, _)
SumCode(in, S) == IF S = {} THEN 0
                  ELSE LET x == CHOOSE x \in S : TRUE IN F(in, x).code + SumCode(in, S \ {x})

RECURSIVE SumSeq(_)
SumSeq(s) == IF s = <<>> THEN 0 ELSE Head(s) + SumSeq(Tail(s))

\* code lines of language l inside immediate sub-directory d (any depth below it)
CodeOf(in, d, l) == SumCode(in, {i \in Idx(in) : Passing(in, i) /\ F(in, i).dir = d /\ F(in, i).lang = l})

-----------------------------------------------------------------------------
(* by-directory report *)

RowDirs(in) == Range(in.dirs) \ Ignored

\* Languages the header must name: those of at least one non-empty counted file outside
\* VCS/IDE/report directories.
ReqLangs(in) == {F(in, i).lang : i \in {j \in MustIdx(in) : Lines(F(in, j)) > 0}}
\* Free_HeaderIgnoredDirLanguage: "languages found in the whole tree" does not say whether files
\* inside .git/.idea/coca_reporter count as "the tree"; a language that occurs only there may or
\* may not be named.
\* Free_HeaderEmptyFileLanguage: a language whose only files have zero lines may or may not be named.
PossLangs(in) == {F(in, i).lang : i \in MustIdx(in) \cup MayIdx(in)}

\* Free_HeaderLabels: the captions of the first two columns (name, summary) are not prescribed.
\* Free_RowOrder / Free_ColumnOrder: neither the order of rows nor of language columns is prescribed.
DiffTable(in, t, ch) ==
  IF ~t.ok THEN {Item("bydir-malformed", ch, {})}
  ELSE IF Len(t.header) < 2 THEN {Item("bydir-header-short", ch, {})}
  ELSE
    LET hl == SubSeq(t.header, 3, Len(t.header))
        rowsOf(d) == {k \in DOMAIN t.rows : t.rows[k].name = d}
        rowItems(k) ==
          LET r == t.rows[k]
              w == ch \o ":" \o r.name
          IN  IF Len(r.cells) # Len(hl) THEN {Item("row-width", w, {})}
              ELSE (IF r.summary # SumSeq(r.cells) THEN {Item("summary-not-sum", w, {})} ELSE {}) \cup
                   (IF r.name \in RowDirs(in)
                    THEN {Item("cell-wrong", w \o ":" \o hl[j], {}) :
                            j \in {x \in DOMAIN hl : r.cells[x] # CodeOf(in, r.name, hl[x])}}
                    ELSE {})
    IN  {Item("header-duplicate-language", ch \o ":" \o hl[i], {}) :
           i \in {x \in DOMAIN hl : \E y \in DOMAIN hl : y # x /\ hl[y] = hl[x]}} \cup
        {Item("header-missing-language", ch \o ":" \o l, {}) : l \in ReqLangs(in) \ Range(hl)} \cup
        {Item("header-unexpected-language", ch \o ":" \o l, {}) : l \in Range(hl) \ PossLangs(in)} \cup
        {Item("row-missing", ch \o ":" \o d, {}) : d \in {x \in RowDirs(in) : rowsOf(x) = {}}} \cup
        {Item("row-duplicate", ch \o ":" \o d, {}) : d \in {x \in RowDirs(in) : Cardinality(rowsOf(x)) > 1}} \cup
        {Item("row-unexpected", ch \o ":" \o t.rows[k].name, {}) :
           k \in {x \in DOMAIN t.rows : t.rows[x].name \notin RowDirs(in)}} \cup
        UNION {rowItems(k) : k \in DOMAIN t.rows}

HasSeparator(d) == \E i \in 1..Len(d) : SubSeq(d, i, i) \in {",", "\""}

DiffByDir(in, o) ==
  IF ~o.ran THEN {Item("bydir-not-run", "", {})}
  ELSE IF o.exit # 0 THEN {Item("bydir-exit", ToString(o.exit), {})}
  \* Free_ConsoleNameWithSeparator: the console listing joins the cells of a row with commas and is no CSV file; when a
  \* sub-directory name itself contains a comma or a double quote its console row cannot be read back, and the statement
  \* does not say how the console shows such a name. The report file (cloc.csv) is judged all the same.
  ELSE (IF \E d \in Range(in.dirs) : HasSeparator(d) THEN {} ELSE DiffTable(in, o.stdout, "stdout")) \cup DiffTable(in, o.csv, "csv")

-----------------------------------------------------------------------------
(* top-file report *)

\* the location the counter records for a file: DIR joined with the relative path
Full(root, in, i) == IF root = "." THEN Rel(in, i) ELSE root \o "/" \o Rel(in, i)
\* Free_LocationForm: a file may be named by its full location, by its path below DIR, or by
\* that path with a leading separator.
Forms(root, in, i) == {Full(root, in, i), Rel(in, i), "/" \o Rel(in, i)}

\* Known defect shape: strings.TrimLeft(location, DIR) treats DIR as a SET of characters and
\* strips every leading character of the location that occurs anywhere in DIR.
Chars(s) == {SubSeq(s, i, i) : i \in 1..Len(s)}
TrimLeftCutset(s, cut) ==
  LET cs == Chars(cut)
      ks == {k \in 1..Len(s) : SubSeq(s, k, k) \notin cs}
      k0 == IF ks = {} THEN Len(s) + 1 ELSE CHOOSE k \in ks : \A j \in ks : k <= j
  IN  SubSeq(s, k0, Len(s))
CutsetTag == "cloc.topfile.location-cutset"
\* a console table pads its cells: leading and trailing blanks of a cell cannot be observed
RECURSIVE StripL(_), StripR(_)
StripL(s) == IF Len(s) > 0 /\ SubSeq(s, 1, 1) = " " THEN StripL(SubSeq(s, 2, Len(s))) ELSE s
StripR(s) == IF Len(s) > 0 /\ SubSeq(s, Len(s), Len(s)) = " " THEN StripR(SubSeq(s, 1, Len(s) - 1)) ELSE s
Strip(s) == StripR(StripL(s))

LangIdx(in, S, l) == {i \in S : F(in, i).lang = l}

RECURSIVE SortDesc(_, _)
SortDesc(in, S) ==
  IF S = {} THEN <<>>
  ELSE LET m == CHOOSE i \in S : \A j \in S : F(in, i).code >= F(in, j).code
       IN  <<F(in, m).code>> \o SortDesc(in, S \ {m})

\* Free_TopIgnoredDirFiles: files inside VCS/IDE/report directories may or may not take part.
Cands(in, l) == {LangIdx(in, MustIdx(in), l) \cup X : X \in SUBSET LangIdx(in, MayIdx(in), l)}
NonIncreasing(s) == \A i \in 1..Len(s) - 1 : s[i] >= s[i + 1]

TopLangs(in) == {F(in, i).lang : i \in MustIdx(in)}
TopPossLangs(in) == {F(in, i).lang : i \in MustIdx(in) \cup MayIdx(in)}

\* one console table: rows = [code, complexity, loc]
DiffConsoleTable(root, in, tb) ==
  LET l == tb.lang
      w == "stdout:" \o l
      codes == [k \in DOMAIN tb.rows |-> tb.rows[k].code]
      all == LangIdx(in, MustIdx(in) \cup MayIdx(in), l)
      lens == {Min2(in.top, Cardinality(S)) : S \in Cands(in, l)}
      explains(k) == \E i \in all : F(in, i).code = tb.rows[k].code
                                    /\ tb.rows[k].loc = Strip(TrimLeftCutset(Full(root, in, i), root))
                                    /\ tb.rows[k].loc \notin Forms(root, in, i)
      tagOf(k) == IF explains(k) THEN {CutsetTag} ELSE {}
      listed(k) == \E i \in all : tb.rows[k].loc \in Forms(root, in, i) /\ F(in, i).code = tb.rows[k].code
  IN  (IF ~NonIncreasing(codes) THEN {Item("top-not-sorted", w, {})}
       ELSE IF Len(codes) \notin lens THEN {Item("top-wrong-length", w, {})}
       ELSE IF codes \notin {SubSeq(SortDesc(in, S), 1, Min2(in.top, Cardinality(S))) : S \in Cands(in, l)}
            THEN {Item("top-wrong-figures", w, {})} ELSE {}) \cup
      {Item("top-row-mismatch", w \o ":" \o tb.rows[k].loc, tagOf(k)) : k \in {x \in DOMAIN tb.rows : ~listed(x)}} \cup
      {Item("top-row-duplicate", w \o ":" \o tb.rows[k].loc,
            IF \E y \in DOMAIN tb.rows : tb.rows[y].loc = tb.rows[k].loc /\ explains(y) THEN {CutsetTag} ELSE {}) :
         k \in {x \in DOMAIN tb.rows : \E y \in DOMAIN tb.rows : y # x /\ tb.rows[y].loc = tb.rows[x].loc}}

\* Free_ConsoleOmittedManyLanguages: the statement sets no limit on the console listing, and the
\* command prints no table at all for trees of more than ConsoleLimit languages (the JSON
\* report is then the report). Printing NO table is accepted for such trees only.
ConsoleLimit == 5
DiffConsole(root, in, o) ==
  IF ~o.tablesok THEN {Item("top-stdout-malformed", "", {})}
  ELSE IF o.tables = <<>> /\ Cardinality(TopPossLangs(in)) > ConsoleLimit THEN {}
  ELSE
    LET tl == [k \in DOMAIN o.tables |-> o.tables[k].lang]
    IN  {Item("top-table-missing", "stdout:" \o l, {}) : l \in TopLangs(in) \ Range(tl)} \cup
        {Item("top-table-unexpected", "stdout:" \o l, {}) : l \in Range(tl) \ TopPossLangs(in)} \cup
        {Item("top-table-duplicate", "stdout:" \o tl[k], {}) :
           k \in {x \in DOMAIN tl : \E y \in DOMAIN tl : y # x /\ tl[y] = tl[x]}} \cup
        UNION {DiffConsoleTable(root, in, o.tables[k]) : k \in {x \in DOMAIN tl : tl[x] \in TopPossLangs(in)}}

\* the JSON report (coca_reporter/sort_cloc.json): files = [loc, code, comment, blank, lines]
\* Free_JsonTruncation: the JSON report may carry all files of a language or only the top ones.
DiffJsonLang(root, in, e) ==
  LET l == e.lang
      w == "json:" \o l
      codes == [k \in DOMAIN e.files |-> e.files[k].code]
      all == LangIdx(in, MustIdx(in) \cup MayIdx(in), l)
      same(k, i) == /\ e.files[k].loc \in Forms(root, in, i)
                    /\ e.files[k].code = F(in, i).code /\ e.files[k].comment = F(in, i).comment
                    /\ e.files[k].blank = F(in, i).blank /\ e.files[k].lines = Lines(F(in, i))
  IN  (IF ~NonIncreasing(codes) THEN {Item("top-not-sorted", w, {})}
       ELSE IF codes \notin ({SortDesc(in, S) : S \in Cands(in, l)} \cup
                             {SubSeq(SortDesc(in, S), 1, Min2(in.top, Cardinality(S))) : S \in Cands(in, l)})
            THEN {Item("top-wrong-figures", w, {})} ELSE {}) \cup
      {Item("top-row-mismatch", w \o ":" \o e.files[k].loc, {}) :
         k \in {x \in DOMAIN e.files : ~\E i \in all : same(x, i)}} \cup
      {Item("top-row-duplicate", w \o ":" \o e.files[k].loc, {}) :
         k \in {x \in DOMAIN e.files : \E y \in DOMAIN e.files : y # x /\ e.files[y].loc = e.files[x].loc}}

DiffJson(root, in, o) ==
  IF ~o.jsonok THEN {Item("top-json-malformed", "", {})}
  ELSE
    LET tl == [k \in DOMAIN o.json |-> o.json[k].lang]
    IN  {Item("top-table-missing", "json:" \o l, {}) : l \in TopLangs(in) \ Range(tl)} \cup
        {Item("top-table-unexpected", "json:" \o l, {}) : l \in Range(tl) \ TopPossLangs(in)} \cup
        {Item("top-table-duplicate", "json:" \o tl[k], {}) :
           k \in {x \in DOMAIN tl : \E y \in DOMAIN tl : y # x /\ tl[y] = tl[x]}} \cup
        UNION {DiffJsonLang(root, in, o.json[k]) : k \in {x \in DOMAIN tl : tl[x] \in TopPossLangs(in)}}

DiffTop(root, in, o) ==
  IF ~o.ran THEN {Item("top-not-run", "", {})}
  ELSE IF o.exit # 0 THEN {Item("top-exit", ToString(o.exit), {})}
  ELSE DiffConsole(root, in, o) \cup DiffJson(root, in, o)

-----------------------------------------------------------------------------
DiffObs(root, in, o) ==
  IF ~InputOK(in) THEN {Item("input-malformed", "", {})}
  ELSE (IF o.panic THEN {Item("panic", "", {})} ELSE {}) \cup
       (IF "bydir" \in Range(in.modes) THEN DiffByDir(in, o.bydir) ELSE {}) \cup
       (IF "top" \in Range(in.modes) THEN DiffTop(root, in, o.top) ELSE {})

Diff(rec) == DiffObs(rec.facts.root, rec.input, rec.observed)
=============================================================================
