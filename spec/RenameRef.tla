----------------------------- MODULE RenameRef -----------------------------
(* Property-level Reference for the method-rename refactoring (C05).                 *)
(* rec.texts  : Seq([path, before : Seq(line), after : Seq(line)])   (lines = text   *)
(*              split at newlines; strings; columns are character positions)         *)
(* rec.sites  : the identifier occurrences the model attributes to the method:       *)
(*              [file, line, c0, c1, kind]  (declaration(s) + recorded calls)        *)
(* rec.req    : [pkg, cls, old, new]                                                 *)
(* rec.model1 / rec.model2 : canonical code model before / after the refactoring     *)
(* The expected text is the SIMULTANEOUS substitution of all sites: every site's     *)
(* character range [c0, c1) becomes req.new, every other character of every line of  *)
(* every file is unchanged.                                                          *)
EXTENDS Naturals, Integers, Sequences, FiniteSets, TLC

Range(s) == {s[i] : i \in DOMAIN s}
Item(p, k, w, t) == [prop |-> p, kind |-> k, where |-> w, tags |-> t]

\* splice all sites of one line, rightmost first, so that columns of the remaining sites stay valid
RECURSIVE SpliceAll(_, _, _)
SpliceAll(line, ss, new) ==
  IF ss = {} THEN line
  ELSE LET s == CHOOSE x \in ss : \A y \in ss : y.c0 <= x.c0
       IN  SpliceAll(SubSeq(line, 1, s.c0) \o new \o SubSeq(line, s.c1 + 1, Len(line)), ss \ {s}, new)

SitesOn(rec, f, l) == {s \in Range(rec.sites) : s.file = f /\ s.line = l}

\* lines that carry sites are given as sequences of single characters (rec.texts[f].siteLines), so that columns are
\* character positions whatever the encoding unit of strings is; SpliceAll works on any sequence
SiteLineOf(rec, f, l) == CHOOSE sl \in Range(rec.texts[f].siteLines) : sl.line = l

DiffText(rec) ==
  UNION {
    LET t == rec.texts[f]
        siteLs == {s.line : s \in {x \in Range(rec.sites) : x.file = f}}
    IN  IF Len(t.after) # Len(t.before) THEN {Item("C05", "line-count-changed", t.path, {})}
        ELSE {Item("C05", "untouched-line-changed", t.path \o ":" \o ToString(l), {}) :
                l \in {l \in DOMAIN t.before \ siteLs : t.after[l] # t.before[l]}} \cup
             {Item("C05", "site-line-wrong", t.path \o ":" \o ToString(l), {}) :
                l \in {l \in siteLs : LET sl == SiteLineOf(rec, f, l)
                                      IN  sl.after # SpliceAll(sl.before, SitesOn(rec, f, l), rec.req.newChars)}}
    : f \in DOMAIN rec.texts}

\* the original model with that method and those calls renamed
RenFn(rec, t, fn) ==
  [name |-> IF t.pkg = rec.req.pkg /\ t.name = rec.req.cls /\ fn.name = rec.req.old THEN rec.req.new ELSE fn.name,
   ret |-> fn.ret, params |-> fn.params,
   calls |-> [k \in DOMAIN fn.calls |->
                IF fn.calls[k].pkg = rec.req.pkg /\ fn.calls[k].node = rec.req.cls /\ fn.calls[k].callee = rec.req.old
                THEN [fn.calls[k] EXCEPT !.callee = rec.req.new] ELSE fn.calls[k]]]
\* Free_C05_ChainedReceiverText: a call chained on another call records the TEXT of that call as its receiver
\* (C02 leaves chained receivers free), and that text follows the rename. Receiver names are therefore compared
\* only where they name a type of the project.
NormNode(rec, fn) ==
  LET classes == {rec.model1[i].name : i \in DOMAIN rec.model1}
  IN  [fn EXCEPT !.calls = [k \in DOMAIN fn.calls |->
         IF fn.calls[k].node \in classes THEN fn.calls[k] ELSE [fn.calls[k] EXCEPT !.node = "<text>"]]]
FnSet(fns) == {fns[k] : k \in DOMAIN fns}

DiffModel(rec) ==
  IF Len(rec.model1) # Len(rec.model2) THEN {Item("C05", "reanalysis-type-count", "", {})}
  ELSE UNION {
         LET t1 == rec.model1[i]
             t2 == rec.model2[i]
         IN  IF t1.pkg # t2.pkg \/ t1.name # t2.name THEN {Item("C05", "reanalysis-type", t1.name, {})}
             ELSE IF {NormNode(rec, RenFn(rec, t1, t1.fns[k])) : k \in DOMAIN t1.fns} = {NormNode(rec, t2.fns[k]) : k \in DOMAIN t2.fns}
                     /\ Len(t1.fns) = Len(t2.fns) THEN {}
             ELSE {Item("C05", "reanalysis-differs", t1.pkg \o "." \o t1.name, {})}
         : i \in DOMAIN rec.model1}

Diff(rec) ==
  IF rec.panic THEN {Item("C05", "panic", rec.note, {})}
  ELSE LET dt == DiffText(rec)
       IN  dt \cup (IF dt = {} THEN DiffModel(rec) ELSE {})     \* the model clause is judged on correctly rewritten text
=============================================================================
