----------------------------- MODULE X01MoveClass -----------------------------
(* Implementation-shaped Machine of the move-class refactoring                            *)
(* (pkg/application/refactor/moveclass/move_class_app.go + refactor/base listener):        *)
(*   NewMoveClassApp        New          package-level moveConfig, configPath := arguments; *)
(*                                       nodes = nil                                      *)
(*   Analysis               AnalyseFile  one loop step per Java file below configPath: the  *)
(*                                       listener's node (Pkg, Name = LAST class/interface  *)
(*                                       entered, pkgInfo.StartLine, imports with their     *)
(*                                       StartLine) is appended to the package-level nodes  *)
(*   Refactoring            one scanner step per configuration line, split in              *)
(*     copyClass            Copy         target := bytes of the origin                      *)
(*     updatePackageInfo    PkgInfo      search loop over nodes (last match wins), then      *)
(*                                       updateFile(target, pkgInfo.StartLine, ..)          *)
(*     updateImportSide     ImportSide   one step per node: every dep with that name ->      *)
(*                                       updateFile(node.Path, dep.StartLine, ..)           *)
(*     updateFile                        strings.Split(.., "\n"); the loop                  *)
(*                                       `for i := range lines { if i == lineNum {          *)
(*                                       lines[i-1] = new } }`; strings.Join                *)
(* A process history is a sequence of projects, each handled by New; Analysis x analyses;   *)
(* Refactoring.  The disk holds concrete lines (what strings.Split sees), the parser reads   *)
(* the abstract file the text was rendered from.  At the end the disk of every project is   *)
(* judged by the same Reference (X01MoveClassRef!Diff) that judges the real code, and the    *)
(* history is emitted as a replay case.  Three switches name the places where the code as   *)
(* it is deviates from the statement (proposed_fixes/X01.md).                               *)
EXTENDS X01MoveClassRef, Json

CONSTANTS Pool,          \* which set of histories (sequences of projects) to explore: see Histories at the end
          NameRule,      \* "last-decl": the moved class is found by node.Name = last class/interface entered (as is)
                         \* "file":      by the file it lives in (proposed_fixes/X01-1.patch)
          CopyNode,      \* FALSE: a copied file is unknown to the import rewriting of later moves (as is)
                         \* TRUE:  the copy is appended to nodes (proposed_fixes/X01-2.patch)
          KeepCR         \* FALSE: a rewritten line loses its "\r" (as is); TRUE: proposed_fixes/X01-3.patch

VARIABLES projects,      \* the history (input)
          pi,            \* index of the project being handled
          phase,         \* "new" | "analysis" | "config" | "copy" | "pkg" | "imports" | "done"
          pass,          \* Analysis runs done for the current project
          configPath, moveConfig,     \* package-level: which project the globals name (0 = unset)
          nodes,         \* package-level []JMoveStruct: [pkg, name, path, pkgLine, deps : Seq([name, line])]
          fi,            \* Analysis: file loop index
          mi,            \* Refactoring: scanner line index
          ni,            \* updateImportSide: node loop index
          disk,          \* disk[n] = listing of project n: Seq([path, lines])
          before,        \* the listings before anything ran (for the observation)
          panic

vars == <<projects, pi, phase, pass, configPath, moveConfig, nodes, fi, mi, ni, disk, before, panic>>

-----------------------------------------------------------------------------
(* Input pools.  Everything that is a big set is built inside the branch of `Histories`    *)
(* that the cfg selects (TLC evaluates every parameterless constant definition at start).  *)

L(k, pre, name, post) == [k |-> k, pre |-> pre, name |-> name, post |-> post]
T(s) == L("text", s, "", "")
Pkg(n) == L("package", "", n, "")
Imp(n) == L("import", "", n, "")
File(pkg, name, eol, final, lines) == [pkg |-> pkg, name |-> name, eol |-> eol, final |-> final, lines |-> lines]
Project(files, dirs, moves, analyses) == [files |-> files, dirs |-> dirs, moves |-> moves, analyses |-> analyses]
Move(a, b) == [from |-> a, to |-> b]

\* what may stand before the package line / between package line and imports
Heads == {<<>>, <<T("// moved by hand"), T("")>>, <<T("/*"), T(" * import a.C;"), T(" */")>>}
Gaps  == {<<>>, <<T("")>>}
Eols  == {"\n", "\r\n"}

\* bodies of a type: plain class, class with a nested class, enum, interface
Body(name, shape) ==
  CASE shape = "plain"  -> <<L("decl", "", name, "public class"), T("    private int n;"), T("}")>>
    [] shape = "nested" -> <<L("decl", "", name, "public class"), L("decl", "    ", "Inner", "static class"), T("    }"), T("}")>>
    [] shape = "enum"   -> <<L("decl", "", name, "public enum"), T("    RED, GREEN"), T("}")>>
    [] shape = "iface"  -> <<L("decl", "", name, "public interface"), T("    void run();"), T("}")>>

ImportPool == {Imp("a.C"), Imp("a.CX"), Imp("a.*"), L("static", "", "a.C.make", ""), L("import", "  ", "a.C", " // the C")}

\* --- layout pools: the moved class a.C and one importer b.U; one move a.C -> t.C
Moved(e, fin, h, b) == File("a", "C", e, fin, h \o <<Pkg("a")>> \o <<T("")>> \o Body("C", b))
Importer(e, fin, h, g, il) == File("b", "U", e, fin, h \o <<Pkg("b")>> \o g \o il \o <<T("")>> \o Body("U", "plain"))
LayoutHistory(m, u) == <<Project(<<m, u>>, <<"t">>, <<Move("a.C", "t.C")>>, 1)>>
Shapes3 == {"plain", "nested", "enum"}

\* --- multi / pair pools: fixed layout
Plain(pkg, name, imports) == File(pkg, name, "\n", TRUE, <<Pkg(pkg)>> \o (IF imports = <<>> THEN <<>> ELSE <<T("")>> \o imports) \o <<T("")>> \o Body(name, "plain"))
Lists2(S) == {<<>>} \cup {<<x>> : x \in S} \cup {p \in S \X S : p[1] # p[2]}
Opt(S) == {<<>>} \cup {<<x>> : x \in S}

Histories ==
  CASE Pool = "layout-quick" ->
         \* star: every moved file with the simplest importer, every importer with the simplest moved file, and every
         \* importer header / import list with a CRLF moved file that declares a nested class
         LET ImportLists == {<<x>> : x \in ImportPool} \cup {<<x, y>> : x, y \in ImportPool}
             m0 == Moved("\n", TRUE, <<>>, "plain")
             m1 == Moved("\r\n", FALSE, <<T("// moved by hand"), T("")>>, "nested")
             u0 == Importer("\n", TRUE, <<>>, <<T("")>>, <<Imp("a.C")>>)
         IN  {LayoutHistory(Moved(e, fin, h, b), u0) : e \in Eols, fin \in BOOLEAN, h \in Heads, b \in Shapes3 \cup {"iface"}}
             \cup {LayoutHistory(m0, Importer(e, fin, h, g, il)) : e \in Eols, fin \in BOOLEAN, h \in Heads, g \in Gaps, il \in ImportLists}
             \cup {LayoutHistory(m1, Importer("\r\n", TRUE, h, <<>>, il)) : h \in Heads, il \in ImportLists}
    [] Pool = "layout" ->
         \* product: every moved file with every importer
         LET ImportLists == {<<x>> : x \in ImportPool} \cup {<<x, y>> : x, y \in ImportPool}
         IN  {LayoutHistory(Moved(e1, f1, h1, b), Importer(e2, f2, h2, g, il))
                : e1 \in Eols, f1 \in BOOLEAN, h1 \in Heads, b \in Shapes3, e2 \in Eols, f2 \in BOOLEAN, h2 \in Heads, g \in Gaps, il \in ImportLists}
    [] Pool = "multi" ->
         \* which classes exist, who imports whom, which moves in which order
         LET ps == {Project(<<c>> \o d \o e \o cv \o u, <<"t", "s/deep">>, mv, 1)
                      : c \in {Plain("a", "C", il) : il \in {<<>>, <<Imp("b.E")>>}},
                        d \in Opt({Plain("a", "D", <<>>)}), e \in Opt({Plain("b", "E", <<>>)}),
                        cv \in {<<>>, <<Plain("c", "C", <<>>), Plain("d", "V", <<Imp("c.C")>>)>>},
                        u \in Opt({Plain("b", "U", il) : il \in Lists2({Imp("a.C"), Imp("a.D"), Imp("b.E")}) \ {<<>>}}),
                        mv \in Lists2({Move("a.C", "t.C"), Move("a.D", "t.D"), Move("b.E", "t.E"), Move("c.C", "s.deep.C")}) \ {<<>>}}
         IN  {<<p>> : p \in {q \in ps : ProjectOK(q)}}
    [] Pool = "pair" ->
         \* one or two projects in one process (the same class names in both), Analysis once or twice
         LET ps == {Project(<<Plain("a", "C", <<>>)>> \o u, <<"t">>, mv, an)
                      : u \in Opt({Plain("b", "U", <<Imp("a.C")>>), Plain("b", "U", <<Imp("a.C"), Imp("a.D")>>)}),
                        mv \in {<<Move("a.C", "t.C")>>, <<>>}, an \in {1, 2}}
                   \cup {Project(<<Plain("a", "C", <<>>), Plain("a", "D", <<>>), Plain("b", "U", <<Imp("a.D"), Imp("a.C")>>)>>, <<"t">>, mv, an)
                           : mv \in {<<Move("a.D", "t.D")>>, <<Move("a.D", "t.D"), Move("a.C", "t.C")>>}, an \in {1, 2}}
         IN  {<<p>> : p \in ps} \cup {<<p, q>> : p, q \in ps}
-----------------------------------------------------------------------------
(* rendering of the abstract input (the same as the Go renderer; BeforeOK checks it) *)

Listing(p) == [i \in DOMAIN p.files |->
                [path |-> PathOf(p.files[i]),
                 lines |-> Shown([j \in DOMAIN p.files[i].lines |-> TextOf(p.files[i].lines[j])], p.files[i].eol, p.files[i].final)]]

Init ==
  /\ projects \in Histories
  /\ pi = 1 /\ phase = "new" /\ pass = 0
  /\ configPath = 0 /\ moveConfig = 0 /\ nodes = <<>>
  /\ fi = 1 /\ mi = 1 /\ ni = 1
  /\ disk = [n \in DOMAIN projects |-> Listing(projects[n])]
  /\ before = [n \in DOMAIN projects |-> Listing(projects[n])]
  /\ panic = FALSE

Cur == projects[pi]

-----------------------------------------------------------------------------
(* NewMoveClassApp, Analysis *)

New ==
  /\ phase = "new"
  /\ moveConfig' = pi /\ configPath' = pi /\ nodes' = <<>>
  /\ phase' = "analysis" /\ fi' = 1 /\ pass' = 0
  /\ UNCHANGED <<projects, pi, mi, ni, disk, before, panic>>

\* the listener on one file: registers of the node when the walk is over
IndexOfKind(lines, kind) == IF \E j \in DOMAIN lines : lines[j].k = kind
                            THEN CHOOSE j \in DOMAIN lines : lines[j].k = kind /\ \A x \in 1..(j - 1) : lines[x].k # kind
                            ELSE 0
ImportNodes(lines) ==
  LET idx == SelectSeq([j \in DOMAIN lines |-> j], LAMBDA j : lines[j].k \in {"import", "static"})
  IN  [x \in DOMAIN idx |-> [name |-> lines[idx[x]].name, line |-> idx[x]]]
ParseFile(f) == [pkg |-> f.pkg, name |-> LastTypeName(f.lines), path |-> PathOf(f),
                 pkgLine |-> IndexOfKind(f.lines, "package"), deps |-> ImportNodes(f.lines)]

\* files := GetJavaFiles(configPath): the files of the project named by the GLOBAL configPath (filepath.Walk
\* order; the order plays no role for the property, the input order is used)
AnalyseFile ==
  /\ phase = "analysis" /\ fi <= Len(projects[configPath].files)
  /\ nodes' = Append(nodes, ParseFile(projects[configPath].files[fi]))
  /\ fi' = fi + 1
  /\ UNCHANGED <<projects, pi, phase, pass, configPath, moveConfig, mi, ni, disk, before, panic>>

AnalysisEnd ==
  /\ phase = "analysis" /\ fi > Len(projects[configPath].files)
  /\ pass' = pass + 1
  /\ IF pass + 1 < Cur.analyses
     THEN phase' = "analysis" /\ fi' = 1 /\ UNCHANGED mi          \* Analysis() once more: nodes is NOT reset
     ELSE phase' = "config" /\ mi' = 1 /\ UNCHANGED fi
  /\ UNCHANGED <<projects, pi, configPath, moveConfig, nodes, ni, disk, before, panic>>

-----------------------------------------------------------------------------
(* Refactoring *)

Moves == projects[moveConfig].moves
Mv == Moves[mi]

FileOn(listing, path) == listing[CHOOSE i \in DOMAIN listing : listing[i].path = path]
HasFile(listing, path) == \E i \in DOMAIN listing : listing[i].path = path
Written(listing, path, lines) ==
  IF HasFile(listing, path)
  THEN [i \in DOMAIN listing |-> IF listing[i].path = path THEN [path |-> path, lines |-> lines] ELSE listing[i]]
  ELSE Append(listing, [path |-> path, lines |-> lines])

EndsCR(s) == Len(s) >= 1 /\ SubSeq(s, Len(s), Len(s)) = "\r"
\* updateFile: [ok, lines]; lineNum = 0 makes the loop write lines[-1] (index out of range)
UpdateFile(lines, lineNum, text) ==
  IF lineNum = 0 THEN [ok |-> FALSE, lines |-> lines]
  ELSE IF lineNum <= Len(lines) - 1             \* `i == lineNum` with i in 0..len-1
  THEN [ok |-> TRUE, lines |-> [lines EXCEPT ![lineNum] = IF KeepCR /\ EndsCR(@) THEN text \o "\r" ELSE text]]
  ELSE [ok |-> TRUE, lines |-> lines]

ScanLine ==          \* scanner.Scan(): next configuration line or end of the configuration
  /\ phase = "config"
  /\ IF mi <= Len(Moves)
     THEN phase' = "copy" /\ UNCHANGED <<pi, pass, fi>>
     ELSE IF pi < Len(projects)
          THEN phase' = "new" /\ pi' = pi + 1 /\ UNCHANGED <<pass, fi>>
          ELSE phase' = "done" /\ UNCHANGED <<pi, pass, fi>>
  /\ UNCHANGED <<projects, configPath, moveConfig, nodes, mi, ni, disk, before, panic>>

Copy ==              \* copyClass(originFile, newFile) (+ the node of the copy, X01-2.patch)
  /\ phase = "copy"
  /\ LET from == PathOfQ(Mv.from)
         to   == PathOfQ(Mv.to)
         d    == disk[configPath]
     IN  IF ~HasFile(d, from)
         THEN panic' = TRUE /\ phase' = "done" /\ UNCHANGED <<disk, nodes>>       \* log.Fatalln: the process exits
         ELSE /\ disk' = [disk EXCEPT ![configPath] = Written(d, to, FileOn(d, from).lines)]
              /\ nodes' = IF CopyNode /\ \E x \in DOMAIN nodes : nodes[x].path = from
                          THEN LET o == nodes[CHOOSE x \in DOMAIN nodes : nodes[x].path = from]
                               IN  Append(nodes, [o EXCEPT !.path = to, !.pkg = PkgOf(Mv.to)])
                          ELSE nodes
              /\ phase' = "pkg" /\ UNCHANGED panic
  /\ UNCHANGED <<projects, pi, pass, configPath, moveConfig, fi, mi, ni, before>>

BaseName(path) == LET q == SubSeq(path, 1, Len(path) - 5)                     \* without ".java"
                      RECURSIVE LastSlash(_)
                      LastSlash(i) == IF i = 0 THEN 0 ELSE IF SubSeq(q, i, i) = "/" THEN i ELSE LastSlash(i - 1)
                  IN  SubSeq(q, LastSlash(Len(q)) + 1, Len(q))
NodeQName(nd) == nd.pkg \o "." \o (IF NameRule = "file" THEN BaseName(nd.path) ELSE nd.name)

PkgInfo ==           \* updatePackageInfo: the search loop keeps the LAST matching node
  /\ phase = "pkg"
  /\ LET hits == {x \in DOMAIN nodes : NodeQName(nodes[x]) = Mv.from}
         to   == PathOfQ(Mv.to)
         d    == disk[configPath]
     IN  IF hits = {} \/ (NameRule = "last-decl" /\ nodes[CHOOSE x \in hits : \A y \in hits : y <= x].name = "")
         THEN UNCHANGED <<disk, panic>> /\ phase' = "imports" /\ ni' = 1
         ELSE LET nd == nodes[CHOOSE x \in hits : \A y \in hits : y <= x]
                  r  == UpdateFile(FileOn(d, to).lines, nd.pkgLine, "package " \o PkgOf(Mv.to) \o ";")
              IN  IF r.ok
                  THEN /\ disk' = [disk EXCEPT ![configPath] = Written(d, to, r.lines)]
                       /\ phase' = "imports" /\ ni' = 1 /\ UNCHANGED panic
                  ELSE panic' = TRUE /\ phase' = "done" /\ UNCHANGED <<disk, ni>>
  /\ UNCHANGED <<projects, pi, pass, configPath, moveConfig, nodes, fi, mi, before>>

RECURSIVE UpdateDeps(_, _, _, _)      \* inner loop over node.Deps
UpdateDeps(lines, deps, j, text) ==
  IF j > Len(deps) THEN [ok |-> TRUE, lines |-> lines]
  ELSE IF deps[j].name = Mv.from
       THEN LET r == UpdateFile(lines, deps[j].line, text)
            IN  IF r.ok THEN UpdateDeps(r.lines, deps, j + 1, text) ELSE r
       ELSE UpdateDeps(lines, deps, j + 1, text)

ImportSide ==        \* updateImportSide: one outer loop step per node
  /\ phase = "imports"
  /\ IF ni > Len(nodes)
     THEN phase' = "config" /\ mi' = mi + 1 /\ UNCHANGED <<ni, disk, panic>>
     ELSE LET nd == nodes[ni]
              d  == disk[configPath]
          IN  IF \A j \in DOMAIN nd.deps : nd.deps[j].name # Mv.from
              THEN ni' = ni + 1 /\ UNCHANGED <<phase, mi, disk, panic>>
              ELSE IF ~HasFile(d, nd.path)
                   THEN panic' = TRUE /\ phase' = "done" /\ UNCHANGED <<ni, mi, disk>>      \* ReadFile fails: log.Fatalln
                   ELSE LET r == UpdateDeps(FileOn(d, nd.path).lines, nd.deps, 1, "import " \o Mv.to \o ";")
                        IN  IF r.ok
                            THEN /\ disk' = [disk EXCEPT ![configPath] = Written(d, nd.path, r.lines)]
                                 /\ ni' = ni + 1 /\ UNCHANGED <<phase, mi, panic>>
                            ELSE panic' = TRUE /\ phase' = "done" /\ UNCHANGED <<ni, mi, disk>>
  /\ UNCHANGED <<projects, pi, pass, configPath, moveConfig, nodes, fi, before>>

Finished == phase = "done"
Done == Finished /\ UNCHANGED vars

Next == New \/ AnalyseFile \/ AnalysisEnd \/ ScanLine \/ Copy \/ PkgInfo \/ ImportSide \/ Done
Spec == Init /\ [][Next]_vars

-----------------------------------------------------------------------------
(* Properties *)

Input == [via |-> "api", projects |-> projects]
Observed == [panic |-> panic, projects |-> [n \in DOMAIN projects |-> [before |-> before[n], after |-> disk[n]]]]

\* (1)-(4): the finished disks are what the Reference allows
X01_MovedExactly == Finished => Diff([input |-> Input, observed |-> Observed]) = {}
\* the refactoring never dies on an input of the quantifier
X01_NoCrash == ~panic
\* (3)/(4), every state: the disk of a project is only written while the globals name that project
X01_OtherProjectsUntouched == \A n \in DOMAIN projects : (n > pi \/ (n = pi /\ phase \in {"new", "analysis"})) => disk[n] = before[n]
\* (4), every state: nodes only hold files of the project the globals name (no mixing of tables)
X01_TablesNotMixed == phase # "new" =>
                        \A x \in DOMAIN nodes : \E f \in Range(projects[configPath].files) \cup {[pkg |-> "", name |-> ""]} :
                             nodes[x].path = PathOf(f) \/ HasFile(disk[configPath], nodes[x].path)

Emit == Finished => PrintT(<<"CASE", ToJson([input |-> Input])>>)

\* development aid (tlc -continue): print the violating histories
ShowDiff == Finished => LET d == Diff([input |-> Input, observed |-> Observed])
                        IN  IF d = {} THEN TRUE ELSE PrintT(<<"NOTE", ToJson([input |-> Input, diff |-> d])>>)

=============================================================================
