\* thorough: every class of <= 4 functions over 16 shapes (4/5 parameters, 8/9 calls, 2/3 lines): 69 904 classes
SPECIFICATION Spec
CONSTANTS
  MaxClasses = 1
  MaxFuncs = 4
  Types = {"Class"}
  Shapes <- ShapesFour
  LongestInit = "constructors"
  MergeKeeps = "first"
INVARIANTS X02_SuggestionsExact X02_OnePerClass X02_CounterRegister Emit
