\* thorough: every class of <= 4 functions over the 48 shapes
SPECIFICATION Spec
CONSTANTS
  MaxClasses = 1
  MaxFuncs = 4
  Types = {"Class"}
  Shapes <- ShapesQuick
  LongestInit = "constructors"
  MergeKeeps = "first"
INVARIANTS X02_SuggestionsExact X02_OnePerClass X02_CounterRegister Emit
