SPECIFICATION Spec
CONSTANTS
  MaxCommits = 4
  MaxOps = 2
VIEW View
INVARIANTS C14_BlockExact C14_NoChangeMigrates Emit
