------------------------ MODULE X06UnusedClassesRef ------------------------
(* Property-level Reference for the extension X06: the list of unused classes            *)
(* (pkg/application/refactor/unusedclasses, `Refactoring(parsedDeps) []string`; README:   *)
(* "refactoring ... remove unused class").  No command reaches the function (cmd/         *)
(* refactor.go imports the package `unused` = unused IMPORTS, not this one), so the       *)
(* routes are: the public function on a model, on the model the real Java passes build,   *)
(* and on the deps.json that `coca analysis` (the binary) writes for a rendered project.  *)
(*                                                                                        *)
(* STATEMENT (what a user who deletes the listed classes relies on).  For any model       *)
(* (a list of class entries, each with the calls recorded for it) the result is           *)
(*   (1) exactly the classes of the model that NO OTHER CLASS calls: a class is listed    *)
(*       iff no call recorded anywhere in an entry of a DIFFERENT class has it as its     *)
(*       target;                                                                          *)
(*   (2) each such class once, under its full name  package "." Name  (coca's             *)
(*       GetClassFullName / BuildClassFullName);                                          *)
(*   (3) in ascending order (byte-wise, the order of Go's sort.Strings);                  *)
(*   (4) a function of the model only (asking twice gives the same list).                 *)
(*                                                                                        *)
(* Decisions (the points the task names):                                                 *)
(*   identity     a class IS its full name: entries with the same package and Name are    *)
(*                one class (listed once, and calls between them are calls of the class   *)
(*                to itself); a namesake in another package is another class.             *)
(*   self-call    "no other code calls it": a call of a class to itself is not a use.     *)
(*                A class whose only caller is itself is unused.                          *)
(*   recorded     every call the model records for an entry: in one of its functions      *)
(*   call         (Functions[i].FunctionCalls), at class level (FunctionCalls, "for field  *)
(*                call": the type of a field), or inside one of its inner structures      *)
(*                (InnerStructures[..], recursively).  Code in an inner structure is code *)
(*                of the enclosing entry (its calls to the enclosing class are self-calls).*)
(*   default      the full name of a class without package is "." Name, as everywhere in  *)
(*   package      coca; see Free_X06_DefaultPackageSpelling.                              *)
(*   target       package "." class of the call as recorded (a call without class name    *)
(*                targets "<package>." and so no class with a name).                      *)
(*                                                                                        *)
(* Quantifier ("conventional" models): package and class names without the interior of    *)
(* another full name, i.e. any strings; nothing is excluded.  Two different               *)
(* (package, Name) pairs with the same concatenation ("a.b","C" / "a","b.C") are one      *)
(* class by the identity rule above.                                                      *)
(*                                                                                        *)
(* Written from this statement, not from the code.  Pure operators over the record:       *)
(*   rec.input    : the abstract case (how the model was obtained; not read here)         *)
(*   rec.model    : Seq([pkg, name,                                                       *)
(*                       field : Seq([pkg, name]),       class-level calls                *)
(*                       fns   : Seq(Seq([pkg, name])),  calls of each function           *)
(*                       inner : Seq([pkg, name]),       every call inside inner structs  *)
(*                       innerNames : Seq([pkg, name])]) the inner structures themselves  *)
(*                  projection of the []CodeDataStruct actually handed to Refactoring     *)
(*   rec.observed : [panic, result : Seq([s, codes]), again : Seq([s, codes])]            *)
(*                  s = the string, codes = its bytes (TLC cannot order strings)          *)
(*                                                                                        *)
(* Where the statement is silent:                                                         *)
(*   Free_X06_InnerListed   whether an inner structure is itself a "class of the model":  *)
(*                    its full name may be listed or not, provided no other class calls   *)
(*                    it.                                                                 *)
(*   Free_X06_DefaultPackageSpelling   a class without package may be spelled ".Name"     *)
(*                    or "Name".                                                          *)
EXTENDS Integers, Sequences, FiniteSets, TLC

Range(s) == {s[i] : i \in DOMAIN s}

Full(p, n) == p \o "." \o n
FullOf(x) == Full(x.pkg, x.name)

\* every call recorded for entry d, wherever the model keeps it
FnCalls(d)  == UNION {Range(d.fns[k]) : k \in DOMAIN d.fns}
AllCalls(d) == Range(d.field) \cup FnCalls(d) \cup Range(d.inner)
Targets(d)  == {FullOf(c) : c \in AllCalls(d)}

Classes(m) == {FullOf(m[i]) : i \in DOMAIN m}
\* full names called by a class OTHER than themselves
UsedByOthers(m) == {t \in UNION {Targets(m[i]) : i \in DOMAIN m} : \E i \in DOMAIN m : FullOf(m[i]) # t /\ t \in Targets(m[i])}
Unused(m) == Classes(m) \ UsedByOthers(m)

\* Free_X06_InnerListed
InnerClasses(m) == UNION {{FullOf(x) : x \in Range(m[i].innerNames)} : i \in DOMAIN m}
MayList(m) == (Classes(m) \cup InnerClasses(m)) \ UsedByOthers(m)

\* Free_X06_DefaultPackageSpelling: the strings under which a full name may be written
Spellings(m, full) ==
  {full} \cup {x.name : x \in {y \in UNION {{[pkg |-> m[i].pkg, name |-> m[i].name]} \cup Range(m[i].innerNames) : i \in DOMAIN m}
                                 : y.pkg = "" /\ FullOf(y) = full}}

RECURSIVE LexLeq(_, _)
LexLeq(a, b) == IF a = <<>> THEN TRUE
                ELSE IF b = <<>> THEN FALSE
                ELSE IF a[1] < b[1] THEN TRUE
                ELSE IF a[1] > b[1] THEN FALSE
                ELSE LexLeq(Tail(a), Tail(b))

-----------------------------------------------------------------------------
(* Known-defect shapes (spec-computed, narrow).  A tag that is not listed in             *)
(* known_findings.json changes nothing.                                                  *)

\* a function of the class calls the class itself: the call is taken for a use
TagSelfCall == "unusedclasses.self-call.counts-as-use"
\* the only calls of other classes to it are class-level (field) calls, which are not read
TagClassLevel == "unusedclasses.class-level-call.ignored"
\* the only calls of other classes to it sit in inner structures, which are not read
TagInner == "unusedclasses.inner-structure-call.ignored"

FnTargets(m, i) == {FullOf(c) : c \in FnCalls(m[i])}
SelfCalled(m, full) == \E i \in DOMAIN m : FullOf(m[i]) = full /\ full \in FnTargets(m, i)
NoFnCallFromOthers(m, full) == \A i \in DOMAIN m : FullOf(m[i]) # full => full \notin FnTargets(m, i)
NoFnCallAtAll(m, full) == \A i \in DOMAIN m : full \notin FnTargets(m, i)

TagsMissing(m, full) == IF SelfCalled(m, full) /\ NoFnCallFromOthers(m, full) THEN {TagSelfCall} ELSE {}
TagsSpurious(m, full) ==
  IF ~NoFnCallAtAll(m, full) THEN {}
  ELSE (IF \E i \in DOMAIN m : FullOf(m[i]) # full /\ full \in {FullOf(c) : c \in Range(m[i].field)} THEN {TagClassLevel} ELSE {})
       \cup (IF \E i \in DOMAIN m : FullOf(m[i]) # full /\ full \in {FullOf(c) : c \in Range(m[i].inner)} THEN {TagInner} ELSE {})

-----------------------------------------------------------------------------
(* Diff *)

Item(k, w, t) == [prop |-> "X06", kind |-> k, where |-> w, tags |-> t]

Strings(list) == {list[i].s : i \in DOMAIN list}

\* (1): exactly the unused classes
DiffExact(m, list) ==
  LET obs == Strings(list)
  IN  {Item("missing-unused-class", full, TagsMissing(m, full)) : full \in {f \in Unused(m) : Spellings(m, f) \cap obs = {}}}
      \cup {Item("used-class-listed", s, UNION {TagsSpurious(m, f) : f \in {g \in Classes(m) : s \in Spellings(m, g)}})
              : s \in {x \in obs : /\ \E f \in Classes(m) \cup InnerClasses(m) : x \in Spellings(m, f)
                                   /\ \A f \in MayList(m) : x \notin Spellings(m, f)}}
      \cup {Item("not-a-class-of-the-model", s, {})
              : s \in {x \in obs : \A f \in Classes(m) \cup InnerClasses(m) : x \notin Spellings(m, f)}}

\* (2): each once (a class spelled in two ways counts twice as well)
DiffOnce(m, list) ==
  {Item("listed-twice", list[i].s, {})
     : i \in {j \in DOMAIN list : \E k \in DOMAIN list : k < j /\
                 (list[k].s = list[j].s \/ \E f \in Classes(m) \cup InnerClasses(m) : {list[k].s, list[j].s} \subseteq Spellings(m, f))}}

\* (3): ascending, byte-wise
DiffSorted(list) ==
  {Item("not-sorted", list[i].s, {}) : i \in {j \in DOMAIN list : j > 1 /\ ~LexLeq(list[j - 1].codes, list[j].codes)}}

\* (4): the same list when asked again
DiffAgain(o) == IF o.result = o.again THEN {} ELSE {Item("second-request-differs", "", {})}

Diff(rec) ==
  LET m == rec.model
      o == rec.observed
  IN  IF o.panic THEN {Item("panic", "", {})}
      ELSE DiffExact(m, o.result) \cup DiffOnce(m, o.result) \cup DiffSorted(o.result) \cup DiffAgain(o)
=============================================================================
