\* quick, unused report: <= 2 declared dependencies over 3 groups (one a textual prefix of another:
\* org.a / org.ab) in both front-ends, with a project reference in between, x every source file of one
\* type kind (class / interface / enum) importing <= 2 names out of <group>.Api, <group>.*, an unrelated
\* import and an import that merely contains a group
SPECIFICATION Spec
CONSTANTS
  Repaired = TRUE
  Kinds = {"pom", "gradle"}
  MaxEntries = 2
  Groups = {"org.a", "org.ab", "io.x"}
  PomShapes = {1, 2}
  Notations = {"sq", "project"}
  Variants = {"plain"}
  Confs = {"implementation"}
  SurroundLevel = 0
  SrcMax = 1
  ImpMax = 2
  Units = {"class", "interface", "enum"}
  ExtraImports = {"java.util.List", "com.vendor.org.a.Thing"}
INVARIANTS C19_NoPanic C19_ExtractedExact C19_PrefixExact C19_OtherNotationsSkipped C19_UnusedExact Emit
