\* two files (one with blanks in its path): <= 3 commits, <= 2 lines each, a new file has one line
SPECIFICATION Spec
CONSTANTS
  MaxCommits = 3
  MaxLines = 2
  MaxNew = 1
  FilePoolName = "two"
  Kinds = {"code", "todo"}
  Moves = FALSE
  RangeEnd = "line"
  PrettyArg = "plain"
INVARIANTS X09_Details X09_LogLine X09_WalkIsStamp X09_OpenIsTag X09_SameTree Emit
