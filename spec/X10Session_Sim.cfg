\* simulation: random sessions of 8 commands over three projects and the whole command alphabet (beyond what TLC
\* can enumerate: 21^8 sessions); every behaviour ends in one emitted session with its slices
SPECIFICATION Spec
CONSTANTS
  MaxSteps = 8
  Projects = {1, 2, 3}
  Commands = {"analysis", "api", "arch", "evaluate", "call", "rcall", "count", "concept", "suggest", "tbs", "bs", "todo"}
INVARIANTS X10_TableIsReference X10_SliceClosed X10_SliceReplays Emit
