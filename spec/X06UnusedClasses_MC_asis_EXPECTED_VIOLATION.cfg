\* the code as it is (no repair): the Machine violates X06_Exact (a class that only calls itself is not listed; a class
\* other classes reach only through a class-level call or from an inner structure is listed).  Not part of a check;
\* run with `tlc -continue` and INVARIANT ShowDiff to list every violating model.
SPECIFICATION Spec
CONSTANTS
  MaxDeps = 2
  MaxField = 1
  MaxFns = 1
  MaxCalls = 1
  MaxInner = 1
  Pkgs = {"x"}
  ClassNames = {"y", "Z"}
  CalleePkgs = {"x"}
  CalleeNames = {"y", "Z", "Out"}
  SelfCalls = "use"
  ClassLevel = "ignored"
  InnerCalls = "ignored"
INVARIANTS X06_Exact X06_Once X06_Sorted X06_Tables X06_ExcludeOnce
