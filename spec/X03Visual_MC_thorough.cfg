\* thorough: <= 3 classes with <= 3 recorded calls each
SPECIFICATION Spec
CONSTANTS
  MaxDeps = 3
  MaxCalls = 3
  Pkgs = {"", "x"}
  ClassNames = {"y", "Z"}
  CalleeNames = {"y", ""}
  ValueLoop = "index"
  CalleeTest = "classname"
  KeyForm = "pair"
INVARIANTS X03_NodesExact X03_LinksExact X03_LinkValues X03_Groups X03_CounterTable Emit
