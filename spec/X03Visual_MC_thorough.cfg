\* thorough: every model of <= 3 classes (one package, two names) with <= 3 recorded calls each (callees y, Z, "no class"):
\* 512 000 models
SPECIFICATION Spec
CONSTANTS
  MaxDeps = 3
  MaxCalls = 3
  Pkgs = {"x"}
  ClassNames = {"y", "Z"}
  CalleeNames = {"y", "Z", ""}
  ValueLoop = "index"
  CalleeTest = "classname"
  KeyForm = "pair"
INVARIANTS X03_NodesExact X03_LinksExact X03_LinkValues X03_Groups X03_CounterTable Emit
