----------------------------- MODULE JavaDerive -----------------------------
(* C09: "all sentences of the Java grammar the tool itself ships".                              *)
(* The derivation machine of that grammar: JavaGrammar.tla is generated from                    *)
(* languages/java/JavaParser.g4 + JavaLexer.g4 of the tree under test (bin/g4tla.py), this      *)
(* module performs LEFTMOST DERIVATIONS of it:                                                  *)
(*   stack : the sentential form still to be expanded (symbols with the depth they were         *)
(*           introduced at),  out : the terminals derived so far (the sentence).                *)
(*   Expand  : replace the leftmost non-terminal by one of its alternatives - any alternative   *)
(*             while the derivation is inside its budget (MaxDepth, MaxTokens), the alternative *)
(*             of minimal height (MinAlt) once it must be closed, so every derivation ends.     *)
(*   Shift   : move a leading terminal to the sentence; a token CLASS (IDENTIFIER, literals)     *)
(*             gets one of NLex lexemes - the harness holds the lexeme table.                   *)
(*   Finish  : sentence complete; optionally one comment (the todo scan reads comments, which   *)
(*             the parser grammar never derives) of a shape from CommentShapes is placed.       *)
(* A derivation starts in one of Contexts: a whole compilation unit, or a conventional wrapper  *)
(* around the non-terminal of interest (member, statement, expression, annotation ...) so that  *)
(* the budget is spent on that construct. Every completed sentence is emitted (Emit), rendered  *)
(* by the harness, checked against the shipped parser (valid = no syntax error: ANTLR resolves  *)
(* precedence with predicates, so a few derivable strings are rejected - they are outside the   *)
(* quantifier and counted), and run through the six passes. Used with `tlc -simulate`: each     *)
(* behaviour is one random derivation; the property-level Reference is JavaShapesRef!Diff.      *)
EXTENDS JavaGrammar, Naturals, Sequences, FiniteSets, Json

CONSTANTS MaxDepth,      \* non-terminals introduced deeper than this are closed by MinAlt
          MaxTokens,     \* once out + stack hold this many symbols every expansion is MinAlt
          NLex           \* lexemes per token class

VARIABLES ctx, stack, out, comment, done
vars == <<ctx, stack, out, comment, done>>

N(v) == [k |-> "N", v |-> v, d |-> 0]
T(v) == [k |-> "T", v |-> v, d |-> 0]
Id   == [k |-> "K", v |-> "IDENTIFIER", d |-> 0]

Contexts ==
  [ unit     |-> <<N("compilationUnit")>>,
    types    |-> <<T("package"), Id, T(";"), N("importDeclaration"), N("typeDeclaration"), N("typeDeclaration")>>,
    member   |-> <<T("class"), Id, T("{"), N("classBodyDeclaration"), N("classBodyDeclaration"), N("classBodyDeclaration"), T("}")>>,
    imember  |-> <<T("interface"), Id, T("{"), N("interfaceBodyDeclaration"), N("interfaceBodyDeclaration"), T("}")>>,
    enum     |-> <<N("enumDeclaration")>>,
    record   |-> <<N("recordDeclaration")>>,
    anntype  |-> <<N("annotationTypeDeclaration")>>,
    method   |-> <<T("class"), Id, T("{"), N("methodDeclaration"), N("constructorDeclaration"), T("}")>>,
    stmt     |-> <<T("class"), Id, T("{"), T("void"), Id, T("("), T(")"), T("{"),
                   N("blockStatement"), N("blockStatement"), N("blockStatement"), T("}"), T("}")>>,
    stmt1    |-> <<T("class"), Id, T("{"), T("void"), Id, T("("), T(")"), T("{"), N("statement"), T("}"), T("}")>>,
    expr     |-> <<T("class"), Id, T("{"), T("Object"), Id, T("="), N("expression"), T(";"),
                   T("void"), Id, T("("), T(")"), T("{"), N("expression"), T(";"), T("}"), T("}")>>,
    ann      |-> <<N("annotation"), T("class"), Id, T("{"), N("annotation"), T("void"), Id, T("("),
                   N("annotation"), T("int"), Id, T(")"), T("{"), T("}"), N("annotation"), T("int"), Id, T(";"), T("}")>>,
    handler  |-> <<T("@"), Id, N("annotation"), T("class"), Id, T("{"), N("annotation"), N("annotation"),
                   N("methodDeclaration"), T("}")>>,
    \* Spring mappings with derived values: the API scan reads the arguments of exactly these annotations
    mapping1 |-> <<T("@"), T("RestController"), T("class"), Id, T("{"),
                   T("@"), T("GetMapping"), T("("), N("elementValue"), T(")"), T("void"), Id, T("("), T(")"), T("{"), T("}"),
                   T("@"), T("RequestMapping"), T("("), T("value"), T("="), N("elementValue"), T(","), T("method"), T("="), N("elementValue"), T(")"),
                   T("void"), Id, T("("), N("formalParameterList"), T(")"), T("{"), T("}"), T("}")>>,
    mapping2 |-> <<T("@"), T("RequestMapping"), T("("), N("elementValue"), T(")"), T("@"), T("RestController"), T("class"), Id, T("{"),
                   T("@"), T("PostMapping"), T("("), N("elementValuePairs"), T(")"), N("methodDeclaration"),
                   T("@"), T("PutMapping"), N("methodDeclaration"), T("}")>>,
    mapping3 |-> <<T("@"), T("Controller"), T("@"), T("RequestMapping"), T("("), T("value"), T("="), N("elementValue"), T(")"), T("class"), Id, T("{"),
                   T("@"), T("DeleteMapping"), T("("), T("value"), T("="), N("elementValue"), T(")"), N("methodDeclaration"), T("}")>>,
    \* literals of every class at the very start of an argument list and of a statement's expression
    litfirst |-> <<T("class"), Id, T("{"), T("double"), Id, T("("), T(")"), T("{"),
                   Id, T("("), [k |-> "K", v |-> "FLOAT_LITERAL", d |-> 0], T(","), N("expression"), T(")"), T(";"),
                   Id, T("("), [k |-> "K", v |-> "DECIMAL_LITERAL", d |-> 0], T(")"), T(";"),
                   Id, T("("), [k |-> "K", v |-> "STRING_LITERAL", d |-> 0], T(","), [k |-> "K", v |-> "CHAR_LITERAL", d |-> 0], T(")"), T(";"),
                   T("return"), [k |-> "K", v |-> "FLOAT_LITERAL", d |-> 0], T("*"), N("expression"), T(";"), T("}"), T("}")>>,
    \* an anonymous class whose method creates objects, inside a parameterless method of a class with nothing before it
    anon     |-> <<T("class"), Id, T("{"), T("void"), Id, T("("), T(")"), T("{"),
                   T("new"), Id, T("("), T(")"), T("{"), T("void"), Id, T("("), T(")"), T("{"), T("new"), N("creator"), T(";"), N("blockStatement"), T("}"), T("}"), T(";"),
                   T("}"), T("}")>>,
    params   |-> <<T("class"), Id, T("{"), T("void"), Id, N("formalParameters"), T("{"), T("}"),
                   T("interface"), Id, T("{"), T("void"), Id, N("formalParameters"), T(";"), T("}"), T("}")>>,
    types2   |-> <<T("class"), Id, T("{"), N("typeType"), Id, T(";"), N("typeType"), Id, T("("), T(")"), T("{"), T("}"), T("}")>>,
    lambda   |-> <<T("class"), Id, T("{"), T("Object"), Id, T("="), N("lambdaExpression"), T(";"), T("}")>>,
    creator  |-> <<T("class"), Id, T("{"), T("Object"), Id, T("="), T("new"), N("creator"), T(";"),
                   T("void"), Id, T("("), T(")"), T("{"), T("new"), N("creator"), T(";"), T("}"), T("}")>>,
    switch   |-> <<T("class"), Id, T("{"), T("int"), Id, T("("), T(")"), T("{"), T("return"), N("switchExpression"), T(";"), T("}"), T("}")>>,
    try      |-> <<T("class"), Id, T("{"), T("void"), Id, T("("), T(")"), T("{"), T("try"), N("resourceSpecification"), N("block"),
                   N("catchClause"), N("finallyBlock"), T("}"), T("}")>>
  ]

CommentShapes == [marker : {"TODO", "FIXME", "todo"}, assignee : {"", "(bob)", "(a b)"}, sep : {"", ":", " ", " : "},
                  msg : {"", "x y", "@alice", "@", "(see #12", "a@b.c: x"}, style : {"line", "block", "doc"}, at : 0..2]
NoComment == [marker |-> "", assignee |-> "", sep |-> "", msg |-> "", style |-> "none", at |-> 0]

Init == /\ ctx \in DOMAIN Contexts
        /\ stack = Contexts[ctx]
        /\ out = <<>> /\ comment = NoComment /\ done = FALSE

Closing(d) == d >= MaxDepth \/ Len(out) + Len(stack) >= MaxTokens

Expand ==
  /\ ~done /\ stack # <<>> /\ Head(stack).k = "N"
  /\ LET s == Head(stack)
         alts == Alts[s.v]
     IN  \E a \in (IF Closing(s.d) THEN {MinAlt[s.v]} ELSE 1..Len(alts)) :
           stack' = [i \in 1..Len(alts[a]) |-> [k |-> alts[a][i].k, v |-> alts[a][i].v, d |-> s.d + 1]] \o Tail(stack)
  /\ UNCHANGED <<ctx, out, comment, done>>

Shift ==
  /\ ~done /\ stack # <<>> /\ Head(stack).k # "N"
  /\ LET s == Head(stack)
     IN  IF s.k = "T" THEN out' = Append(out, s.v)
         ELSE \E i \in 0..(NLex - 1) : out' = Append(out, "@" \o s.v \o "#" \o ToString(i))
  /\ stack' = Tail(stack)
  /\ UNCHANGED <<ctx, comment, done>>

Finish ==
  /\ ~done /\ stack = <<>>
  /\ done' = TRUE
  \* one successor only (TLC evaluates Emit on every successor it generates): the shape is drawn, not branched on
  /\ comment' = IF RandomElement(0..2) = 0 THEN NoComment ELSE RandomElement(CommentShapes)
  /\ UNCHANGED <<ctx, stack, out>>

\* no step after Finish: with deadlock checking off a behaviour ends there
Next == Expand \/ Shift \/ Finish
Spec == Init /\ [][Next]_vars

-----------------------------------------------------------------------------
\* the machine only ever holds symbols of the grammar, and a closed derivation is a sentence (terminals only)
C09_SentenceOfGrammar ==
  /\ \A i \in DOMAIN stack : stack[i].k \in {"N", "T", "K"} /\ (stack[i].k = "N" => stack[i].v \in DOMAIN Alts)
  /\ (done => stack = <<>>)
\* the budget bounds every derivation: a closing expansion never adds more than the rule's minimal sentence
C09_Bounded == Len(out) <= MaxTokens + 400

Emit == done => PrintT(<<"CASE", ToJson([ctx |-> ctx, tokens |-> out, comment |-> comment])>>)
=============================================================================
