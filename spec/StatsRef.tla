----------------------------- MODULE StatsRef -----------------------------
(* Property-level Reference for C18: reference counts (`coca count`), the evaluation   *)
(* summary (`coca evaluate`) and the concept report (`coca concept`).                  *)
(* Pure operators over one trace record                                                *)
(*   rec.input    : [src  : "java" | "model",   how the code model is produced          *)
(*                   via  : "api" | "cli",                                              *)
(*                   classes : Seq([pkg, name : Seq(piece), kind : "class"|"interface", *)
(*                      members : Seq([kind : "method"|"ctor", name : Seq(piece),       *)
(*                                     pre  : Seq(token)   modifier keywords and        *)
(*                                            annotations ("@X") in SOURCE ORDER,       *)
(*                                     rets : Seq(kind)    return statements in order,  *)
(*                                     params : Nat, calls : Seq([pkg, cls, name])])])] *)
(*   rec.model    : Seq([pkg, cls, name, calls : Seq([pkg, cls, name])])                *)
(*                  the CODE MODEL the count command reads (deps.json), one entry per   *)
(*                  recorded function; "For any code model" - the model is the input    *)
(*                  of the count part (src = "java": produced by the real passes)       *)
(*   rec.facts    : [stop : Seq(word)]   the stop-word tables shipped with the tool      *)
(*   rec.observed : [panic, count : [done, rows, rows2], eval : [done, classes, methods,*)
(*                   statics, utils, listed, nullable, nullableCount],                  *)
(*                   concept : [done, rows]]                                            *)
(* A name is given as its camel-case PIECES ("get","User","URL"): the text is their     *)
(* concatenation, the words of the name are the pieces (ground truth by construction).  *)
EXTENDS Naturals, Sequences, FiniteSets, TLC

Range(s) == {s[i] : i \in DOMAIN s}

-----------------------------------------------------------------------------
(* strings: TLC evaluates \o, Len, SubSeq on strings *)

UC == <<"A","B","C","D","E","F","G","H","I","J","K","L","M","N","O","P","Q","R","S","T","U","V","W","X","Y","Z">>
LC == <<"a","b","c","d","e","f","g","h","i","j","k","l","m","n","o","p","q","r","s","t","u","v","w","x","y","z">>
UpperChars == Range(UC)
LowerChars == Range(LC)
DigitChars == {"0","1","2","3","4","5","6","7","8","9"}

Ch(s, i) == SubSeq(s, i, i)
LowerChar(c) == IF c \in UpperChars THEN LC[CHOOSE i \in DOMAIN UC : UC[i] = c] ELSE c
RECURSIVE LowerFrom(_, _)
LowerFrom(s, i) == IF i > Len(s) THEN "" ELSE LowerChar(Ch(s, i)) \o LowerFrom(s, i + 1)
LowerStr(s) == LowerFrom(s, 1)

RECURSIVE Concat(_)
Concat(ps) == IF ps = <<>> THEN "" ELSE Head(ps) \o Concat(Tail(ps))

AllIn(s, set) == Len(s) > 0 /\ \A i \in 1..Len(s) : Ch(s, i) \in set
IsAllUpper(p) == AllIn(p, UpperChars)
IsAllLower(p) == AllIn(p, LowerChars)
IsDigits(p)   == AllIn(p, DigitChars)
IsCapitalised(p) == Len(p) > 1 /\ Ch(p, 1) \in UpperChars /\ \A i \in 2..Len(p) : Ch(p, i) \in LowerChars

RECURSIVE SumSeq(_)
SumSeq(s) == IF s = <<>> THEN 0 ELSE Head(s) + SumSeq(Tail(s))

\* well-formed camel-case pieces: a lower-case word may only stand first (elsewhere it would
\* continue the previous word); every other piece is Capitalised, ALLCAPS (acronym / single
\* letter) or a digit run
\* an underscore run separates words and is no word itself (should_reject__emptyOrder, _load, total_); the word after it
\* may be lower-case
IsUnderscores(p) == AllIn(p, {"_"})
PieceOK(ps, i) == \/ i = 1 /\ IsAllLower(ps[i])
                  \/ IsCapitalised(ps[i]) \/ IsAllUpper(ps[i])
                  \/ i > 1 /\ IsDigits(ps[i])
                  \/ IsUnderscores(ps[i]) /\ (i = 1 \/ ~IsUnderscores(ps[i - 1]))
                  \/ i > 1 /\ IsUnderscores(ps[i - 1]) /\ IsAllLower(ps[i])
NameOK(ps) == Len(ps) > 0 /\ \A i \in DOMAIN ps : PieceOK(ps, i)

\* Free_C18_AmbiguousCamel: two adjacent ALLCAPS pieces ("URL" "X" -> "URLX") cannot be told apart
\* from one acronym; the statement does not say how such a run splits. Never generated; if present
\* the concept part is not judged.
Ambiguous(ps) == \E i \in 1..Len(ps) - 1 : IsAllUpper(ps[i]) /\ IsAllUpper(ps[i + 1])

Item(k, w, t) == [prop |-> "C18", kind |-> k, where |-> w, tags |-> t]

-----------------------------------------------------------------------------
(* Part 1 - reference counts.  "the reference count of a project method equals the    *)
(* number of recorded call sites that resolve to it, methods never called are absent,  *)
(* and the counts are listed in a reproducible order"                                  *)

\* the key under which a project method is listed
DeclKey(m) == m.pkg \o "." \o m.cls \o "." \o m.name
\* a recorded call site resolves to the project method with the same package, class and method name;
\* an object creation (no method name) resolves to no method
\* Free_C18_Overloads: the model identifies a method by its full name, overloads share one key
CallKey(c) == c.pkg \o "." \o c.cls \o "." \o c.name

Sites(M) == UNION {{<<i, j>> : j \in DOMAIN M[i].calls} : i \in DOMAIN M}
ExpectedCount(M, k) ==
  Cardinality({s \in Sites(M) : M[s[1]].calls[s[2]].name # "" /\ CallKey(M[s[1]].calls[s[2]]) = k})

DiffCount(rec) ==
  LET M    == rec.model
      o    == rec.observed.count
      decl == {DeclKey(M[i]) : i \in DOMAIN M}
      rows == o.rows
      keyAt(r) == rows[r][1]
      listed == {keyAt(r) : r \in DOMAIN rows}
      exp  == [k \in decl |-> ExpectedCount(M, k)]
  IN  IF ~o.done THEN {} ELSE
      {Item("count-wrong", keyAt(r), {}) : r \in {x \in DOMAIN rows : keyAt(x) \in decl /\ exp[keyAt(x)] > 0 /\ rows[x][2] # exp[keyAt(x)]}} \cup
      {Item("count-missing", k, {}) : k \in {x \in decl : exp[x] > 0 /\ x \notin listed}} \cup
      {Item("count-never-called-listed", keyAt(r), {}) : r \in {x \in DOMAIN rows : keyAt(x) \in decl /\ exp[keyAt(x)] = 0}} \cup
      {Item("count-not-a-project-method", k, {}) : k \in listed \ decl} \cup
      {Item("count-listed-twice", keyAt(r), {}) : r \in {x \in DOMAIN rows : \E y \in DOMAIN rows : y # x /\ keyAt(y) = keyAt(x)}} \cup
      \* reproducible order: a second execution on the same model lists the same rows in the same order
      (IF o.rows2 # o.rows THEN {Item("count-order-not-reproducible", "", {})} ELSE {})

-----------------------------------------------------------------------------
(* Part 2 - evaluation summary.  "numbers of classes, methods, static methods (whatever *)
(* the order of a method's modifiers) and utility classes, and its list of nullable     *)
(* methods (those that return the null literal or are annotated @Nullable/@CheckForNull,*)
(* each listed once) equal the values derivable from the source"                        *)

HasTok(m, t) == \E i \in DOMAIN m.pre : m.pre[i] = t
HasRet(m, kinds) == \E i \in DOMAIN m.rets : m.rets[i] \in kinds

IsStaticBySource(m) == HasTok(m, "static")
NullAnnotated(m)    == HasTok(m, "@Nullable") \/ HasTok(m, "@CheckForNull")
ReturnsNullLiteral(m) == HasRet(m, {"null"})
\* Free_C18_NullInsideExpression: `return c ? null : v;` / `return (null);` - the returned expression
\* is not the literal itself but evaluates to it on some path: either reading is accepted
FreeNullKinds == {"tern", "paren"}
\* return expressions that MENTION null without returning it: `v != null`, `"null"`, an identifier
\* `nullable`, an argument `f(null)`: by the statement such a method is not nullable
MentionKinds == {"cmp", "str", "ident", "arg"}
\* Free_C18_QualifiedAnnotation: `@javax.annotation.Nullable` written with its package: free
FreeNullAnnotated(m) == HasTok(m, "@javax.annotation.Nullable") \/ HasTok(m, "@javax.annotation.CheckForNull")

MustNullable(m) == m.kind = "method" /\ (ReturnsNullLiteral(m) \/ NullAnnotated(m))
MayNullable(m)  == m.kind = "method" /\ (MustNullable(m) \/ HasRet(m, FreeNullKinds) \/ FreeNullAnnotated(m))
MentionsOnly(m) == m.kind = "method" /\ ~MayNullable(m) /\ HasRet(m, MentionKinds)

ClassName(c)  == Concat(c.name)
MethodKey(c, m) == c.pkg \o "." \o ClassName(c) \o "." \o Concat(m.name)

Members(in) == UNION {{<<ci, mi>> : mi \in DOMAIN in.classes[ci].members} : ci \in DOMAIN in.classes}
Mem(in, x) == in.classes[x[1]].members[x[2]]
KeyOf(in, x) == MethodKey(in.classes[x[1]], Mem(in, x))

\* a utility class is a class whose name contains the word Util / Utils
IsUtilName(ps) == \E i \in DOMAIN ps : LowerStr(ps[i]) \in {"util", "utils"}

DiffEval(rec) ==
  LET in  == rec.input
      o   == rec.observed.eval
      ms  == Members(in)
      nMethods == Cardinality({x \in ms : Mem(in, x).kind = "method"})
      nCtors   == Cardinality({x \in ms : Mem(in, x).kind = "ctor"})
      nStatic  == Cardinality({x \in ms : Mem(in, x).kind = "method" /\ IsStaticBySource(Mem(in, x))})
      cs       == DOMAIN in.classes
      nClass   == Cardinality({c \in cs : in.classes[c].kind = "class"})
      nIface   == Cardinality({c \in cs : in.classes[c].kind = "interface"})
      uClass   == Cardinality({c \in cs : in.classes[c].kind = "class" /\ IsUtilName(in.classes[c].name)})
      uIface   == Cardinality({c \in cs : in.classes[c].kind = "interface" /\ IsUtilName(in.classes[c].name)})
      \* Free_C18_InterfaceIsClass: "number of classes" - an interface may or may not be counted (all or none)
      okClasses == {nClass, nClass + nIface}
      okUtils   == {uClass, uClass + uIface}
      \* Free_C18_ConstructorIsMethod: constructors may or may not be counted as methods (all or none)
      okMethods == {nMethods, nMethods + nCtors}
      must  == {KeyOf(in, x) : x \in {y \in ms : MustNullable(Mem(in, y))}}
      may   == {KeyOf(in, x) : x \in {y \in ms : MayNullable(Mem(in, y))}}
      ment  == {KeyOf(in, x) : x \in {y \in ms : MentionsOnly(Mem(in, y))}} \ may
      lst   == o.nullable
      names == Range(lst)
      times(n) == Cardinality({i \in DOMAIN lst : lst[i] = n})
      \* "each listed once"; Free_C18_Overloads: overloads share one name, which may then appear once per overload
      maxTimes(n) == Cardinality({x \in ms : KeyOf(in, x) = n /\ MayNullable(Mem(in, x))})
      mentionTag(n) == IF n \in ment THEN {"nullable.return-mentions-null"} ELSE {}
  IN  IF ~o.done THEN {} ELSE
      (IF o.classes \in okClasses THEN {} ELSE {Item("summary-classes", ToString(<<o.classes, nClass>>), {})}) \cup
      (IF o.methods \in okMethods THEN {} ELSE {Item("summary-methods", ToString(<<o.methods, nMethods>>), {})}) \cup
      (IF o.statics = nStatic THEN {} ELSE {Item("summary-static-methods", ToString(<<o.statics, nStatic>>), {})}) \cup
      (IF o.utils \in okUtils THEN {} ELSE {Item("summary-utility-classes", ToString(<<o.utils, uClass>>), {})}) \cup
      (IF o.listed
       THEN {Item("nullable-missing", n, {}) : n \in must \ names} \cup
            {Item("nullable-not-nullable-listed", n, mentionTag(n)) : n \in names \ may} \cup
            {Item("nullable-listed-twice", n, {}) : n \in {x \in names \cap may : times(x) > 1 /\ times(x) > maxTimes(x)}}
       ELSE \* the report shows only how many nullable methods there are
            IF o.nullableCount >= Cardinality(must) /\ o.nullableCount <= Cardinality(may) THEN {}
            ELSE {Item("nullable-count", ToString(<<o.nullableCount, Cardinality(must)>>),
                       IF o.nullableCount > Cardinality(may) /\ o.nullableCount <= Cardinality(may \cup ment)
                       THEN {"nullable.return-mentions-null"} ELSE {})})

-----------------------------------------------------------------------------
(* Part 3 - concept report.  "the concept report's word counts sum to the number of    *)
(* words in the method names that are not stop words"                                   *)

\* the statement fixes the SUM only; which words are listed and in which order is free
ConceptJudged(in) == \A x \in Members(in) : NameOK(Mem(in, x).name) /\ ~Ambiguous(Mem(in, x).name)

NonStopWords(ps, stop) == Cardinality({i \in DOMAIN ps : ~IsDigits(ps[i]) /\ ~IsUnderscores(ps[i]) /\ LowerStr(ps[i]) \notin stop})
DigitWords(ps) == Cardinality({i \in DOMAIN ps : IsDigits(ps[i])})

\* Known defect shape (tag concept.single-letter-head-glued; third-party camel-case splitter): a name whose
\* FIRST word is a single lower-case letter directly followed by an ALLCAPS word ("xY", "xURL", "xURLName",
\* "xYZoom") is never split after the first letter, so the first two pieces are counted as ONE word
\* ("xy", "xurl"). GluedReading = the number of non-stop words under that reading; an observed sum is excused
\* only if it equals it exactly (plus the free digit / constructor words).
GluedHead(ps) == Len(ps) >= 2 /\ IsAllLower(ps[1]) /\ Len(ps[1]) = 1 /\ IsAllUpper(ps[2])
GluedReading(ps, stop) ==
  IF GluedHead(ps)
  THEN (IF LowerStr(ps[1] \o ps[2]) \notin stop THEN 1 ELSE 0) + NonStopWords(SubSeq(ps, 3, Len(ps)), stop)
  ELSE NonStopWords(ps, stop)

DiffConcept(rec) ==
  LET in   == rec.input
      o    == rec.observed.concept
      stop == Range(rec.facts.stop)
      ms   == Members(in)
      meths == {x \in ms : Mem(in, x).kind = "method"}
      ctors == {x \in ms : Mem(in, x).kind = "ctor"}
      nameOf(x) == Mem(in, x).name
      \* sums over members: a set of pairs <<member, n>> keeps equal numbers apart
      total(S, f(_)) == LET RECURSIVE Go(_)
                            Go(T) == IF T = {} THEN 0 ELSE LET x == CHOOSE y \in T : TRUE IN f(x) + Go(T \ {x})
                        IN  Go(S)
      lo   == total(meths, LAMBDA x : NonStopWords(nameOf(x), stop))
      \* Free_C18_DigitWord: is "2" in "to2Json" a word? either. Free_C18_ConstructorIsMethod: a constructor's
      \* name (= the class name) may or may not take part
      hi   == lo + total(meths, LAMBDA x : DigitWords(nameOf(x)))
                 + total(ctors, LAMBDA x : NonStopWords(in.classes[x[1]].name, stop) + DigitWords(in.classes[x[1]].name))
      glued == total(meths, LAMBDA x : GluedReading(nameOf(x), stop))
      sum  == SumSeq([r \in DOMAIN o.rows |-> o.rows[r][2]])
  IN  IF ~o.done \/ ~ConceptJudged(in) THEN {} ELSE
      IF sum >= lo /\ sum <= hi THEN {}
      ELSE {Item("concept-sum", ToString(<<sum, lo, hi>>),
                 IF glued # lo /\ sum >= glued /\ sum <= glued + (hi - lo)
                 THEN {"concept.single-letter-head-glued"} ELSE {})}

-----------------------------------------------------------------------------
(* the renderer is not trusted on the conventions the Reference relies on *)
BadInput(rec) ==
  LET in == rec.input
  IN  (IF \A c \in DOMAIN in.classes : Len(in.classes[c].name) > 0 /\ \A x \in Members(in) : Len(Mem(in, x).name) > 0
       THEN {} ELSE {Item("harness-bad-input", "empty name", {})}) \cup
      (IF in.src = "model" /\ rec.observed.eval.done THEN {Item("harness-bad-input", "summary without identifier pass", {})} ELSE {})

Diff(rec) ==
  (IF rec.observed.panic THEN {Item("panic", rec.observed.note, {})} ELSE {}) \cup
  BadInput(rec) \cup DiffCount(rec) \cup DiffEval(rec) \cup DiffConcept(rec)
=============================================================================
