------------------------------ MODULE JavaDecl ------------------------------
(* Implementation-shaped Machine of the DECLARATION bookkeeping of the two Java passes (C01):  *)
(*   java_identify.JavaIdentifierListener : currentNode, nodes, currentMethod, hasEnterClass,   *)
(*                                          isOverrideMethod                                    *)
(*   ast_java.JavaFullListener            : currentNode, methodMap (keyed name:line:column),    *)
(*                                          classNodes, hasEnterClass                           *)
(* Both listeners receive the same callback stream of one conventional compilation unit, chosen *)
(* incrementally (class or interface; class annotations; fields, constructors, methods,         *)
(* interface methods, each possibly annotated, possibly sharing a line with its predecessor,    *)
(* names drawn from a two-name alphabet so that overloads occur). Ghost variable `decl` lists   *)
(* what the unit declares; at the end of the unit both passes must have produced exactly one    *)
(* entry with exactly those named functions. `hist` (hidden by VIEW) is the witness emitted for *)
(* replay on the real code.                                                                     *)
EXTENDS Naturals, Sequences, FiniteSets, TLC, Json

CONSTANTS MaxMembers

Names == {"run", "get"}
ParamLists == {<<>>, <<[type |-> "int", name |-> "a"]>>, <<[type |-> "String", name |-> "s"], [type |-> "Foo", name |-> "f"]>>}
Anns == {"Deprecated", "Override"}
Range(s) == {s[i] : i \in DOMAIN s}
Bag(s) == [x \in Range(s) |-> Cardinality({i \in DOMAIN s : s[i] = x})]

VARIABLES
  phase,        \* "start" | "header" | "body" | "done"
  kind,         \* "class" | "interface"
  line, col,    \* position of the next member
  nmembers,
  \* identifier listener
  iHasEnterClass, iOverride, iNodeAnns, iCurAnns, iFns, iNodes,
  \* full listener
  fHasEnterClass, fNodeAnns, fMap, fNodes,
  \* ghost: what the unit declares
  declAnns, decl,
  hist

vars == <<phase, kind, line, col, nmembers, iHasEnterClass, iOverride, iNodeAnns, iCurAnns, iFns, iNodes,
          fHasEnterClass, fNodeAnns, fMap, fNodes, declAnns, decl, hist>>
View == <<phase, kind, line, col, nmembers, iHasEnterClass, iOverride, iNodeAnns, iCurAnns, iFns, iNodes,
          fHasEnterClass, fNodeAnns, fMap, fNodes, declAnns, decl>>

Ev(r) == hist' = Append(hist, r)

Init ==
  /\ phase = "start" /\ kind = "class" /\ line = 5 /\ col = 4 /\ nmembers = 0
  /\ iHasEnterClass = FALSE /\ iOverride = FALSE /\ iNodeAnns = <<>> /\ iCurAnns = <<>> /\ iFns = <<>> /\ iNodes = <<>>
  /\ fHasEnterClass = FALSE /\ fNodeAnns = <<>> /\ fMap = <<>> /\ fNodes = <<>>
  /\ declAnns = <<>> /\ decl = <<>> /\ hist = <<>>

\* NewJavaIdentifierListener / NewJavaFullListener + package declaration
StartFile ==
  /\ phase = "start"
  /\ \E k \in {"class", "interface"} : kind' = k /\ Ev([e |-> "file", kind |-> k])
  /\ phase' = "header"
  /\ iHasEnterClass' = FALSE /\ iOverride' = FALSE         \* reset since fix ea5321d
  /\ UNCHANGED <<line, col, nmembers, iNodeAnns, iCurAnns, iFns, iNodes, fHasEnterClass, fNodeAnns, fMap, fNodes, declAnns, decl>>

\* EnterAnnotation before the type declaration: recorded on the node while !hasEnterClass (both listeners)
ClassAnnotation ==
  /\ phase = "header" /\ Len(declAnns) < 2
  /\ \E a \in Anns \ Range(declAnns) :
       /\ iNodeAnns' = IF iHasEnterClass THEN iNodeAnns ELSE Append(iNodeAnns, a)
       /\ fNodeAnns' = IF fHasEnterClass THEN fNodeAnns ELSE Append(fNodeAnns, a)
       /\ iOverride' = (a = "Override")
       /\ declAnns' = Append(declAnns, a)
       /\ Ev([e |-> "classann", name |-> a])
  /\ UNCHANGED <<phase, kind, line, col, nmembers, iHasEnterClass, iCurAnns, iFns, iNodes, fHasEnterClass, fMap, fNodes, decl>>

\* EnterClassDeclaration / EnterInterfaceDeclaration
EnterType ==
  /\ phase = "header" /\ phase' = "body"
  /\ iHasEnterClass' = TRUE /\ fHasEnterClass' = TRUE
  /\ iCurAnns' = IF kind = "class" THEN <<>> ELSE iCurAnns      \* class: currentMethod = NewJMethod()
  /\ Ev([e |-> "type"])
  /\ UNCHANGED <<kind, line, col, nmembers, iOverride, iNodeAnns, iFns, iNodes, fNodeAnns, fMap, fNodes, declAnns, decl>>

\* one constructor / method / interface method, with its optional leading annotation and position
Member ==
  /\ phase = "body" /\ nmembers < MaxMembers
  /\ \E mk \in (IF kind = "class" THEN {"ctor", "method"} ELSE {"imethod"}), n \in Names, ps \in ParamLists,
        ann \in Anns \cup {""}, same \in BOOLEAN :
       LET l == IF same /\ nmembers > 0 THEN line ELSE line + 1
           c == IF same /\ nmembers > 0 THEN col + 20 ELSE 4
           name == IF mk = "ctor" THEN "K" ELSE n
           ret == IF mk = "ctor" THEN "" ELSE "void"
           \* EnterAnnotation inside the type: never recorded on the node (hasEnterClass is TRUE)
           iNodeAnns2 == IF ann # "" /\ ~iHasEnterClass THEN Append(iNodeAnns, ann) ELSE iNodeAnns
           fNodeAnns2 == IF ann # "" /\ ~fHasEnterClass THEN Append(fNodeAnns, ann) ELSE fNodeAnns
           \* BuildAnnotationForMethod: the first modifier, if it is an annotation (methods and interface methods)
           anns2 == IF mk # "ctor" /\ ann # "" THEN Append(iCurAnns, ann) ELSE iCurAnns
           isig == [name |-> name, ret |-> ret, params |-> <<>>]
           fsig == [name |-> name, ret |-> ret, params |-> ps]
           key == <<name, l, c>>                                    \* getMethodMapName since fix 64412ea
       IN  /\ line' = l /\ col' = c
           /\ iNodeAnns' = iNodeAnns2 /\ fNodeAnns' = fNodeAnns2
           /\ iFns' = Append(iFns, isig)                                \* Exit...Declaration appends currentMethod
           /\ iCurAnns' = IF mk = "ctor" THEN anns2 ELSE <<>>            \* ExitConstructorDeclaration keeps currentMethod
           /\ iOverride' = IF mk = "method" THEN FALSE ELSE (iOverride \/ ann = "Override")
           /\ fMap' = [k \in DOMAIN fMap \cup {key} |-> IF k = key THEN fsig ELSE fMap[k]]   \* updateMethod
           /\ decl' = Append(decl, fsig)
           /\ Ev([e |-> "member", mk |-> mk, name |-> name, params |-> ps, ann |-> ann, same |-> (same /\ nmembers > 0)])
  /\ nmembers' = nmembers + 1
  /\ UNCHANGED <<phase, kind, iHasEnterClass, iNodes, fHasEnterClass, fNodes, declAnns>>

\* ExitClassBody / ExitInterfaceDeclaration (identifier) and exitBody with SetMethodFromMap (full)
ExitType ==
  /\ phase = "body" /\ phase' = "done"
  /\ iHasEnterClass' = FALSE /\ fHasEnterClass' = FALSE
  /\ iNodes' = Append(iNodes, [kind |-> kind, anns |-> iNodeAnns, fns |-> iFns])
  /\ fNodes' = Append(fNodes, [kind |-> kind, anns |-> fNodeAnns,
                               fns |-> LET ks == DOMAIN fMap
                                           RECURSIVE Seqify(_)
                                           Seqify(S) == IF S = {} THEN <<>> ELSE LET k == CHOOSE x \in S : TRUE IN <<fMap[k]>> \o Seqify(S \ {k})
                                       IN  Seqify(ks)])
  /\ Ev([e |-> "end"])
  /\ UNCHANGED <<kind, line, col, nmembers, iOverride, iNodeAnns, iCurAnns, iFns, fNodeAnns, fMap, declAnns, decl>>

Done == phase = "done" /\ UNCHANGED vars
Next == StartFile \/ ClassAnnotation \/ EnterType \/ Member \/ ExitType \/ Done
Spec == Init /\ [][Next]_vars

-----------------------------------------------------------------------------
Strip(s) == [i \in DOMAIN s |-> [name |-> s[i].name, ret |-> s[i].ret, params |-> <<>>]]

\* exactly one entry, of the right kind, with the class annotations, and exactly one named function per declared one
C01_IdentExact == phase = "done" => /\ Len(iNodes) = 1 /\ iNodes[1].kind = kind /\ iNodes[1].anns = declAnns
                                    /\ Bag(iNodes[1].fns) = Bag(Strip(decl))
C01_FullExact  == phase = "done" => /\ Len(fNodes) = 1 /\ fNodes[1].kind = kind /\ fNodes[1].anns = declAnns
                                    /\ Bag(fNodes[1].fns) = Bag(decl)

Emit == phase = "done" => PrintT(<<"CASE", ToJson([events |-> hist])>>)
=============================================================================
