----------------------------- MODULE X07CocaFile -----------------------------
(* Implementation-shaped Machine of cocafile.GetFilesWithFilter                          *)
(* (pkg/adapter/cocafile/file_analysis_helper.go, file_filter.go) with the line reader    *)
(* of github.com/sabhiram/go-gitignore it uses:                                           *)
(*   gitIgnore, err := ignore.CompileIgnoreFile(codeDir + "/.gitignore")                  *)
(*                                   AddLine (one per line), StartWalk (no file: nil)     *)
(*   filepath.Walk(codeDir, func(path, fi, err) {                                         *)
(*                                   VisitRoot: the first call is for codeDir itself      *)
(*                                   then one call per member, names sorted, depth first: *)
(*     if gitIgnore.MatchesPath(path) { return nil }        CbIgnored                     *)
(*     if strings.Contains(path, "testData") { return nil } CbTestData                    *)
(*     if filter(path) { files = append(files, path) }      CbAppend / CbReject           *)
(*   (repaired only: a directory is never appended, CbDirectory; an ignored or testData   *)
(*    directory is not entered, NotVisited)                                               *)
(* `path` is the path AS SPELLED: codeDir joined with the relative path.  The tree is     *)
(* chosen incrementally: the candidates of `Universe` are offered in walk order, each may *)
(* be absent or present (with one of its kinds, if its parent is a present directory),    *)
(* and the callback runs at once, so TLC enumerates every tree over the candidates with   *)
(* every .gitignore of <= MaxLines lines over `Patterns`, every walker and every way of   *)
(* naming the root in `Roots`.  At Finish the output is judged by the same Reference      *)
(* (X07CocaFileRef) that judges the real code, and the case is emitted for replay.        *)
(* Three switches name where the code as it is deviates from the statement                *)
(* (proposed_fixes/X07.md); the registered cfgs use the repaired setting, the `_asis`     *)
(* cfg the unrepaired one.                                                                *)
EXTENDS X07CocaFileRef, Json

CONSTANTS Universe,      \* Seq([path, kinds]) candidates in walk order
          Walkers,       \* subset of the walker names
          Roots,         \* set of [above, root, addr]
          Patterns,      \* set of .gitignore lines [t, neg, name, path]
          MaxLines,
          PathBase,      \* "spelled":  the .gitignore lines are compared with the path as spelled (the code)
                         \* "relative": with the path relative to the root; an ignored directory is not entered (X07-2.patch)
          TestDataTest,  \* "substring": strings.Contains(path, "testData") (the code)
                         \* "directory": a directory called testData below the root is not entered (X07-3.patch)
          DirTest        \* "none": whatever the filter accepts is appended (the code);  "isdir": never a directory (X07-1.patch)

VARIABLES walker, rootcfg,  \* chosen in Init
          present, lines,   \* the root .gitignore: is there one, its compiled lines (gitIgnore.patterns)
          phase,            \* "ignore" | "root" | "walk" | "done"
          cur,              \* index of the next candidate
          entries,          \* the members chosen so far (input)
          skipped,          \* directories the walk did not enter (filepath.SkipDir; repaired setting only)
          files             \* the slice: Seq([spelled, rel])

vars == <<walker, rootcfg, present, lines, phase, cur, entries, skipped, files>>

Base == <<"tmp", "w">>                                  \* stands for the absolute scratch directory
Facts == [base |-> Base]

Init ==
  /\ walker \in Walkers /\ rootcfg \in Roots
  /\ present = TRUE /\ lines = <<>> /\ phase = "ignore" /\ cur = 1
  /\ entries = <<>> /\ skipped = {} /\ files = <<>>

-----------------------------------------------------------------------------
(* the path as spelled, and the code's predicates on that string *)

Vis == Visible([above |-> rootcfg.above, root |-> rootcfg.root], Facts, rootcfg.addr)
SpelledRoot == CASE rootcfg.addr = "dot" -> "."
                 [] rootcfg.addr = "rel" -> Join(Vis)
                 [] rootcfg.addr = "relslash" -> Join(Vis) \o "/"
                 [] rootcfg.addr = "abs" -> "/" \o Join(Vis)
Spelled(p) == IF rootcfg.addr = "abs" THEN "/" \o Join(Vis \o p) ELSE Join(Vis \o p)     \* filepath.Join cleans "./" and "//"

FilterJava(s) == EndsWith(s, ".java")
FilterTest(s) == EndsWith(s, ".java") /\ (EndsWith(s, "Test.java") \/ EndsWith(s, "Tests.java") \/ Contains(s, "src/test/java/"))
Filter(s) == CASE walker = "java" -> FilterJava(s)
               [] walker = "test" -> FilterTest(s)
               [] walker = "code" -> FilterJava(s) /\ ~FilterTest(s)
               [] walker = "go" -> EndsWith(s, ".go")
               [] walker = "py" -> EndsWith(s, ".py")
               [] walker = "ts" -> EndsWith(s, ".ts")
               [] walker = "pom" -> EndsWith(s, "pom.xml")
               [] walker = "gradle" -> EndsWith(s, "build.gradle")

\* go-gitignore: each line is one regular expression over the whole string; seen through the path components `c`
\* (slash = the string continues with "/" after the last component)
LineMatches(L, c, slash) ==
  CASE L.t = "name" -> \E i \in DOMAIN c : c[i] = L.name                                 \* ^(|.*/)name(|/.*)$
    [] L.t = "dir" -> \E i \in DOMAIN c : c[i] = L.name /\ (i < Len(c) \/ slash)         \* ^(|.*/)name/(|.*)$
    [] L.t = "suffix" -> \E i \in DOMAIN c : EndsWith(c[i], L.name)                      \* ^(|.*/)([^/]*)suffix(|/.*)$
    [] L.t = "rooted" -> Len(L.path) <= Len(c) /\ Prefix(c, Len(L.path)) = L.path       \* ^(|/)a/b(|/.*)$
    [] OTHER -> FALSE
\* MatchesPath: a plain line sets the answer, a "!" line clears it
MatchesPath(c, slash) ==
  LET hit == {i \in DOMAIN lines : LineMatches(lines[i], c, slash)}
  IN  IF hit = {} THEN FALSE ELSE ~lines[CHOOSE i \in hit : \A j \in hit : j <= i].neg

IgnoredByCode(p, dir) ==
  /\ present
  /\ IF PathBase = "spelled" THEN MatchesPath(Vis \o p, FALSE) ELSE MatchesPath(p, dir)
TestDataByCode(p, dir) ==
  IF TestDataTest = "substring" THEN Contains(Spelled(p), "testData") ELSE dir /\ LastOf(p) = "testData"

-----------------------------------------------------------------------------
(* reading the .gitignore *)

AddLine ==
  /\ phase = "ignore" /\ Len(lines) < MaxLines
  /\ \E L \in Patterns : lines' = Append(lines, L)
  /\ UNCHANGED <<walker, rootcfg, present, phase, cur, entries, skipped, files>>

StartWalk ==
  /\ phase = "ignore"
  /\ present' \in (IF lines = <<>> THEN {TRUE, FALSE} ELSE {TRUE})     \* no file: err, gitIgnore = nil
  /\ phase' = "root"
  /\ UNCHANGED <<walker, rootcfg, lines, cur, entries, skipped, files>>

\* the first callback: codeDir itself (a directory)
VisitRoot ==
  /\ phase = "root"
  /\ files' = IF /\ ~(present /\ PathBase = "spelled" /\ MatchesPath(Vis, rootcfg.addr = "relslash"))
                 /\ ~(TestDataTest = "substring" /\ Contains(SpelledRoot, "testData"))
                 /\ DirTest = "none"
                 /\ Filter(SpelledRoot)
              THEN Append(files, [spelled |-> SpelledRoot, rel |-> "."]) ELSE files
  /\ phase' = "walk"
  /\ UNCHANGED <<walker, rootcfg, present, lines, cur, entries, skipped>>

-----------------------------------------------------------------------------
(* one candidate *)

Cand == Universe[cur]
Parent(p) == Prefix(p, Len(p) - 1)
HasDir(q) == q = <<>> \/ \E i \in DOMAIN entries : entries[i].path = q /\ entries[i].kind = "dir"
Entered(q) == \A n \in 1..Len(q) : Prefix(q, n) \notin skipped

Absent ==
  /\ phase = "walk" /\ cur <= Len(Universe)
  /\ cur' = cur + 1
  /\ UNCHANGED <<walker, rootcfg, present, lines, phase, entries, skipped, files>>

\* the candidate exists with kind k; `outcome` names the branch of the callback that is taken
Member(k, outcome) ==
  /\ phase = "walk" /\ cur <= Len(Universe)
  /\ k \in Cand.kinds /\ HasDir(Parent(Cand.path))
  /\ LET p == Cand.path
         dir == IsDirKind(k)
         real == k = "dir"                                 \* Walk does not follow links: only a real directory is entered
         visited == Entered(Parent(p))
         ign == IgnoredByCode(p, dir)
         td == TestDataByCode(p, real)
         isdir == DirTest = "isdir" /\ dir
         sel == Filter(Spelled(p))
         branch == IF ~visited THEN "notvisited" ELSE IF ign THEN "ignored" ELSE IF td THEN "testdata"
                   ELSE IF isdir THEN "directory" ELSE IF sel THEN "append" ELSE "reject"
     IN  /\ outcome = branch
         /\ entries' = Append(entries, [path |-> p, kind |-> k])
         /\ files' = IF branch = "append" THEN Append(files, [spelled |-> Spelled(p), rel |-> Join(p)]) ELSE files
         /\ skipped' = IF /\ real /\ visited
                          /\ \/ PathBase = "relative" /\ branch = "ignored"
                             \/ TestDataTest = "directory" /\ branch = "testdata"
                       THEN skipped \cup {p} ELSE skipped
  /\ cur' = cur + 1
  /\ UNCHANGED <<walker, rootcfg, present, lines, phase>>

NotVisited  == \E k \in {"file", "dir", "linkfile", "linkdir", "deadlink"} : Member(k, "notvisited")
CbIgnored   == \E k \in {"file", "dir", "linkfile", "linkdir", "deadlink"} : Member(k, "ignored")
CbTestData  == \E k \in {"file", "dir", "linkfile", "linkdir", "deadlink"} : Member(k, "testdata")
CbDirectory == \E k \in {"dir", "linkdir"} : Member(k, "directory")
CbAppend    == \E k \in {"file", "dir", "linkfile", "linkdir", "deadlink"} : Member(k, "append")
CbReject    == \E k \in {"file", "dir", "linkfile", "linkdir", "deadlink"} : Member(k, "reject")

Finish ==
  /\ phase = "walk" /\ cur > Len(Universe)
  /\ phase' = "done"
  /\ UNCHANGED <<walker, rootcfg, present, lines, cur, entries, skipped, files>>

Finished == phase = "done"
Done == Finished /\ UNCHANGED vars

Next == AddLine \/ StartWalk \/ VisitRoot \/ Absent \/ NotVisited \/ CbIgnored \/ CbTestData \/ CbDirectory \/ CbAppend \/ CbReject
        \/ Finish \/ Done
Spec == Init /\ [][Next]_vars

-----------------------------------------------------------------------------
(* constants of the registered configurations (cfg: `Universe <- UniverseJava` ...) *)

F(p) == [path |-> p, kinds |-> {"file"}]
Dr(p) == [path |-> p, kinds |-> {"dir"}]
K(p, ks) == [path |-> p, kinds |-> ks]
Line(t, neg, name, path) == [t |-> t, neg |-> neg, name |-> name, path |-> path]
RootCfg(above, root, addr) == [above |-> above, root |-> root, addr |-> addr]

\* Java trees, in walk order (byte order of the names in each directory, depth first)
UniverseJava ==
  << F(<<"A.java">>), F(<<"FooTest.java">>), F(<<"LatestData.java">>),
     Dr(<<"gen">>), F(<<"gen", "B.java">>),
     Dr(<<"pkg.java">>), F(<<"pkg.java", "C.java">>),
     Dr(<<"src">>), Dr(<<"src", "test">>), Dr(<<"src", "test", "java">>), F(<<"src", "test", "java", "Spec.java">>),
     Dr(<<"testData">>), F(<<"testData", "T.java">>) >>
\* the same, nothing below the directory that is named like a file (quick tier)
UniverseJavaQuick ==
  << F(<<"A.java">>), F(<<"FooTest.java">>), F(<<"LatestData.java">>),
     Dr(<<"gen">>), F(<<"gen", "B.java">>),
     Dr(<<"pkg.java">>),
     Dr(<<"src">>), Dr(<<"src", "test">>), Dr(<<"src", "test", "java">>), F(<<"src", "test", "java", "Spec.java">>),
     Dr(<<"testData">>), F(<<"testData", "T.java">>) >>
UniverseLinksQuick ==
  << F(<<"A.java">>), K(<<"L.java">>, {"linkfile", "deadlink", "linkdir"}),
     Dr(<<"gen">>), K(<<"gen", "B.java">>, {"file", "linkfile"}),
     K(<<"testData">>, {"dir", "linkdir", "file"}), F(<<"testData", "T.java">>) >>
UniverseOtherQuick ==
  << F(<<"dependency-reduced-pom.xml">>), F(<<"main.go">>),
     Dr(<<"nats.go">>), F(<<"nats.go", "conn.go">>), F(<<"nats.go", "pom.xml">>),
     F(<<"pom.xml">>), F(<<"x.ts">>), F(<<"x.tsx">>) >>
\* the same without the directory that is named like a file
UniverseJavaPlain ==
  << F(<<"A.java">>), F(<<"FooTest.java">>), F(<<"LatestData.java">>), F(<<"Tests.java.txt">>),
     Dr(<<"gen">>), F(<<"gen", "B.java">>), F(<<"gen", "BTests.java">>),
     Dr(<<"src">>), Dr(<<"src", "test">>), Dr(<<"src", "test", "java">>), F(<<"src", "test", "java", "Spec.java">>),
     Dr(<<"testData">>), F(<<"testData", "T.java">>) >>
\* a small tree for long .gitignore files
UniverseNeg ==
  << F(<<"A.java">>), Dr(<<"gen">>), F(<<"gen", "B.java">>), F(<<"gen", "C.java">>), Dr(<<"gen", "gen">>), F(<<"gen", "gen", "B.java">>) >>
\* a small Java tree for the many ways of naming a root
UniverseSmall ==
  << F(<<"A.java">>), F(<<"ATest.java">>), Dr(<<"gen">>), F(<<"gen", "B.java">>), Dr(<<"src">>), F(<<"src", "Spec.java">>) >>
\* links, and a directory that nests
UniverseLinks ==
  << F(<<"A.java">>), K(<<"L.java">>, {"linkfile", "deadlink", "linkdir"}),
     Dr(<<"gen">>), K(<<"gen", "B.java">>, {"file", "linkfile"}), Dr(<<"gen", "gen">>), F(<<"gen", "gen", "C.java">>),
     K(<<"testData">>, {"dir", "linkdir", "file"}), F(<<"testData", "T.java">>) >>
\* other languages and build files
UniverseOther ==
  << F(<<"build.gradle">>), F(<<"dependency-reduced-pom.xml">>), F(<<"main.go">>),
     Dr(<<"nats.go">>), F(<<"nats.go", "conn.go">>), F(<<"nats.go", "pom.xml">>),
     F(<<"pom.xml">>), F(<<"setup.py">>), F(<<"x.ts">>), F(<<"x.tsx">>) >>

PatternsJava ==
  { Line("name", FALSE, "gen", <<>>), Line("dir", FALSE, "gen", <<>>), Line("suffix", FALSE, "Test.java", <<>>),
    Line("rooted", FALSE, "", <<"gen">>), Line("name", TRUE, "B.java", <<>>), Line("comment", FALSE, "gen", <<>>),
    Line("name", FALSE, "proj", <<>>) }
PatternsQuick ==
  { Line("name", FALSE, "gen", <<>>), Line("dir", FALSE, "gen", <<>>), Line("suffix", FALSE, "Test.java", <<>>),
    Line("rooted", FALSE, "", <<"gen">>), Line("name", TRUE, "B.java", <<>>) }
RootsQuick == { RootCfg(<<>>, "proj", "dot"), RootCfg(<<"w">>, "proj", "rel") }
PatternsRoots == PatternsJava \cup { Line("name", TRUE, "proj", <<>>), Line("rooted", TRUE, "", <<"java">>) }
PatternsNeg ==
  { Line("name", FALSE, "gen", <<>>), Line("suffix", FALSE, ".java", <<>>), Line("name", TRUE, "gen", <<>>),
    Line("name", TRUE, "B.java", <<>>), Line("rooted", TRUE, "", <<"gen", "B.java">>), Line("blank", FALSE, "", <<>>) }
PatternsOther ==
  { Line("name", FALSE, "nats.go", <<>>), Line("dir", FALSE, "nats.go", <<>>), Line("suffix", FALSE, ".xml", <<>>) }

RootsAll ==
  { RootCfg(<<>>, "proj", "dot"), RootCfg(<<>>, "proj", "rel"), RootCfg(<<"gen">>, "proj", "relslash"),
    RootCfg(<<>>, "latestData", "abs") }
RootsPlain == { RootCfg(<<>>, "proj", "dot"), RootCfg(<<"w">>, "proj", "rel"), RootCfg(<<>>, "proj", "abs") }
RootsTest ==
  { RootCfg(<<"src", "test">>, "java", "rel"), RootCfg(<<"testData">>, "proj", "rel"), RootCfg(<<>>, "nats.go", "rel"),
    RootCfg(<<>>, "proj", "dot") }
RootsOther == { RootCfg(<<>>, "nats.go", "rel"), RootCfg(<<>>, "proj", "dot") }
RootsShapes == RootsAll \cup RootsTest \cup { RootCfg(<<"w">>, "app.java", "relslash"), RootCfg(<<"websrc", "test">>, "java", "abs") }

-----------------------------------------------------------------------------
(* Properties: the Machine's output satisfies the Reference *)

Input == [via |-> "api", walker |-> walker, above |-> rootcfg.above, root |-> rootcfg.root, addrs |-> <<rootcfg.addr>>,
          entries |-> entries, ignore |-> [present |-> present, crlf |-> FALSE, lines |-> lines]]
Run == LET f == [i \in DOMAIN files |-> files[i].rel]
       IN  [addr |-> rootcfg.addr, panic |-> FALSE, files |-> f, again |-> f]
Kinds(d) == {x.kind : x \in d}
D == DiffRun(Input, Facts, Run)

X07_Complete    == Finished => "missing-file" \notin Kinds(D)
X07_Sound       == Finished => Kinds(D) \cap {"file-not-selected", "not-in-the-tree"} = {}
X07_NoDirectory == Finished => "directory-returned" \notin Kinds(D)
X07_Once        == Finished => "returned-twice" \notin Kinds(D)
\* the four together, the Reference evaluated once per finished walk (what the registered configurations check)
X07_Exact == Finished => Kinds(D) \cap {"missing-file", "file-not-selected", "not-in-the-tree", "directory-returned", "returned-twice"} = {}
\* register sanity: the slice only holds members the walk has reached (or the root), spelled with the root path in front
X07_Slice == \A i \in DOMAIN files :
               \/ files[i].rel = "."
               \/ \E j \in DOMAIN entries : files[i].rel = Join(entries[j].path) /\ files[i].spelled = Spelled(entries[j].path)

Emit == Finished => PrintT(<<"CASE", ToJson([input |-> Input])>>)

\* development aid (tlc -continue): print the violating cases
ShowDiff == Finished => IF D = {} THEN TRUE ELSE PrintT(<<"NOTE", ToJson([input |-> Input, diff |-> D])>>)
=============================================================================
