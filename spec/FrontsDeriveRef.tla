-------------------------- MODULE FrontsDeriveRef --------------------------
(* Reference for the last sentence of C20:                                              *)
(*     "Neither front-end crashes on a file its parser accepts."                        *)
(* A record is one source file derived from the grammar the repository ships            *)
(* (PyDerive / GoDerive), rendered by harness/cmd/frontsderive and handed to the real   *)
(* front-end:                                                                           *)
(*   rec.accepts           the front-end's OWN parser accepted the text (Python: the    *)
(*                         ANTLR parser of languages/python reported no syntax error;   *)
(*                         Go: go/parser.ParseFile, the call ast_go makes, returned no  *)
(*                         error). This is the quantifier of the sentence: a file the   *)
(*                         parser rejects is not judged (Free_C20_Rejected).            *)
(*   rec.observed.panic    a public entry point (XIdentApp.Analysis on the text,        *)
(*                         analysis.CommonAnalysis over the directory) panicked, or the *)
(*                         process died / hung                                          *)
(*   rec.observed.serialises  both results went through encoding/json (the model is     *)
(*                         what coca writes to godeps.json / pydeps.json: a result that *)
(*                         cannot be written is as good as a crash)                     *)
(* Nothing else is demanded here: WHAT the model lists is the business of FrontsRef.    *)
EXTENDS Naturals, Sequences, FiniteSets, TLC, Json

Item(p, k, w, t) == [prop |-> p, kind |-> k, where |-> w, tags |-> t]

Free_C20_Rejected(rec) == ~rec.accepts

Diff(rec) ==
  IF Free_C20_Rejected(rec) THEN {}
  ELSE LET o == rec.observed
       IN  (IF o.panic THEN {Item("C20", "panic", rec.lang \o " " \o o.note, {})} ELSE {}) \cup
           (IF ~o.panic /\ ~o.serialises THEN {Item("C20", "result-not-serialisable", rec.lang \o " " \o o.note, {})} ELSE {})
=============================================================================
