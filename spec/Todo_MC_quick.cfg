\* quick: every text of <= 4 cells over the 14-cell alphabet (all comment openers, quotes, backslash,
\* back-quote, the word, another word, blank, colon, parentheses, newline), one selected and one
\* unselected file; ParseComment strips `#` by marker length (proposed_fixes/C17-1.patch)
SPECIFICATION Spec
CONSTANTS
  MaxLen = 4
  Starts <- StartsNone
  Alphabet <- AlphaBase
  Files <- FilesQuick
  FilterLists <- FiltersQuick
  HashStrip = 1
INVARIANTS C17_NoCrashOnAnyShape C17_ReportedExact C17_LineCounter Emit
