-------------------------------- MODULE Arch --------------------------------
(* Implementation-shaped Machine of coca's architecture graph pipeline (`coca arch`):  *)
(*   arch.ArchApp.Analysis          loop over the classes of the model: skip `Main`,    *)
(*                                  NodeList[src], RelationList["from->to"] from        *)
(*                                  Implements, field types, Extend, method calls       *)
(*   tequila.MergeHeaderFile        node loop, then relation loop (Go map order = any   *)
(*                                  order) with MergeHeaderFunc / MergePackageFunc      *)
(*   tequila.BuildMapTree / PathTrie.Put   one Put per included node (cmd/arch.go's     *)
(*                                  nodeFilter: contains one of the filter strings)     *)
(*   tequila.MapToGraph / buildGraphNode   leaves of the trie become drawn nodes,       *)
(*                                  registered under their node key (their trie path)   *)
(*   edge loop of MapToGraph        an edge iff both ends are registered                *)
(* The abstract input (ArchRef's JSON shape) is chosen incrementally: the set of types  *)
(* in Init, the relations of a class when Analysis reaches it, the merge switches when  *)
(* cmd/arch.go reads them, the filter when BuildMapTree starts. The Machine's outputs   *)
(* are judged by the same Reference (ArchRef!Diff) that judges the real code in         *)
(* Arch_Trace. The Machine describes the code with the repairs C13-1..3 applied; each    *)
(* repair can be switched off by a constant (FixKey / FixLeaving / FixRegister = FALSE)  *)
(* to get the algorithm as found, on which TLC reproduces the corresponding defect.      *)
EXTENDS ArchRef, Integers, SequencesExt, FiniteSetsExt, Json

CONSTANTS Universe,      \* Seq([pkg : Seq(String), name : String]): candidate types
          MinTypes, MaxTypes,   \* size of the model
          Kinds,         \* relation kinds of the alphabet: subset of {"impl","bare","ext","field","call","maincall"}
          MaxRel,        \* relation items per class
          Externals,     \* extra relation targets [pkg : String, node : String] (library / absent types)
          Modes,         \* subset of {"none","H","P","HP"}
          Filters,       \* set of include filters (Seq(String))
          FixKey,        \* C13-1: merged relations keyed from->to (FALSE: from ++ to, as found)
          FixLeaving,    \* C13-2: MergeHeaderFile skips relations with an end outside the graph (FALSE: merges them)
          FixRegister    \* C13-3: drawn nodes registered under their node key (FALSE: dotted join of the trie Values)

VARIABLES model,         \* the abstract input, filled in as the code reads it
          phase,         \* "analysis" | "analysed" | "merge" | "merged" | "tree" | "graph" | "done"
          ci,            \* Analysis: index of the class the loop is at
          nodeList,      \* FullGraph.NodeList (keys; value = key)
          relationList,  \* FullGraph.RelationList: key string -> <<from, to>>
          mergeQ,        \* merge functions still to be applied, in cmd/arch.go's order
          inMerge,       \* inside MergeHeaderFile's relation loop
          pending,       \* keys not yet visited by the current map loop
          result,        \* MergeHeaderFile: the graph under construction [nodes, rels]
          trie,          \* PathTrie: prefix-closed set of paths (sequences of raw parts)
          registered,    \* MapToGraph: `nodes` map, dotted name -> node id
          obs,           \* what an observer of the real code would have projected so far
          verdict        \* ArchRef!Diff of the finished run (computed once, on the finishing step)

vars == <<model, phase, ci, nodeList, relationList, mergeQ, inMerge, pending, result, trie, registered, obs, verdict>>

-----------------------------------------------------------------------------
(* universes and alphabets (selected by `Universe <- U_...` in the cfgs) *)

T(p, n) == [pkg |-> p, name |-> n]
X(p, n) == [pkg |-> p, node |-> n]

\* analysis-centred: two packages, an entry class, one type of the unnamed package
U_analysis == <<T(<<"a">>, "A"), T(<<"a">>, "Main"), T(<<"b">>, "AMain"), T(<<>>, "C")>>
\* merge-centred: package names whose concatenations collide ("a"+"bb" = "ab"+"b")
\* two types out of three, for the runs with two relation items per class
U_pair     == <<T(<<"a">>, "A"), T(<<"a">>, "Main"), T(<<"b">>, "MainB")>>
U_collide  == <<T(<<"a">>, "A"), T(<<"ab">>, "A"), T(<<"b">>, "B"), T(<<"bb">>, "B")>>
\* nested packages, top-level collisions under merge-package, Main, the unnamed package
U_nested   == <<T(<<"a">>, "A"), T(<<"a", "b">>, "B"), T(<<"ab">>, "A"), T(<<"b", "a">>, "B"),
               T(<<"bb">>, "Main"), T(<<>>, "A")>>

X_std  == {X("x", "E")}
X_none == {}

F_all    == {<<>>}
F_some   == {<<>>, <<"a.">>, <<"B", "zz">>}
F_nested == {<<>>, <<"a">>, <<".B">>, <<"b.a", "ab">>}

TargetOf(t) == X(PkgStr(t), t.name)
Targets == {TargetOf(Universe[i]) : i \in DOMAIN Universe} \cup Externals
Items == Kinds \X Targets
\* sets of at most MaxRel relation items, at most one `extends`
RelChoices == {s \in UNION {kSubset(n, Items) : n \in 0..MaxRel} : Cardinality({x \in s : x[1] = "ext"}) <= 1}

Of(s, k) == SetToSeq({x[2] : x \in {y \in s : y[1] = k}})
ExtOf(s) == IF \E x \in s : x[1] = "ext" THEN TargetId((CHOOSE x \in s : x[1] = "ext")[2]) ELSE ""
Ids(ts)  == [i \in DOMAIN ts |-> TargetId(ts[i])]
Bare(ts) == [i \in DOMAIN ts |-> ts[i].node]
WithRels(t, s) ==
  [pkg |-> t.pkg, name |-> t.name,
   impls |-> Ids(Of(s, "impl")) \o Bare(Of(s, "bare")), ext |-> ExtOf(s), fields |-> Of(s, "field"),
   methods |-> <<[name |-> "run", calls |-> Of(s, "call")], [name |-> "main", calls |-> Of(s, "maincall")]>>]

Empty(t) == [pkg |-> t.pkg, name |-> t.name, impls |-> <<>>, ext |-> "", fields |-> <<>>, methods |-> <<>>]

Subsets == {s \in SUBSET (DOMAIN Universe) : Cardinality(s) >= MinTypes /\ Cardinality(s) <= MaxTypes}
InOrder(s) == LET idx == SetToSortSeq(s, LAMBDA a, b : a < b) IN [i \in DOMAIN idx |-> Empty(Universe[idx[i]])]

-----------------------------------------------------------------------------
(* string helpers of the code *)

RECURSIVE SplitFrom(_, _, _)
SplitFrom(s, i, start) ==
  IF i > Len(s) THEN <<SubSeq(s, start, Len(s))>>
  ELSE IF SubSeq(s, i, i) = "." THEN <<SubSeq(s, start, i - 1)>> \o SplitFrom(s, i + 1, i + 1)
  ELSE SplitFrom(s, i + 1, start)
SplitDot(s) == SplitFrom(s, 1, 1)                       \* strings.Split(s, ".")

MergeHeaderFunc(s) ==
  LET tmp == SplitDot(s)
  IN  IF Len(tmp) > 1 THEN Join(SubSeq(tmp, 1, Len(tmp) - 1), ".") ELSE s

Level == 7
MergePackageFunc(s) ==      \* keys of the architecture graph contain neither "/" nor "::"
  LET tmp == SplitDot(s)
  IN  IF Len(tmp) > Level THEN Join(SubSeq(tmp, 1, Level), ".")
      ELSE IF tmp[1] = s THEN "main" ELSE tmp[1]

MergeFn(m, s) == IF m = "H" THEN MergeHeaderFunc(s) ELSE MergePackageFunc(s)

\* strings.ReplaceAll(key, ".", "/") cut by PathSegmenter: a part runs up to the next "/" after
\* its first character, so a leading "/" (key starting with ".") stays glued to the first part
Parts(key) ==
  IF key = "" THEN <<>>
  ELSE LET segs == SplitDot(key)
           rest(from) == [i \in 1..(Len(segs) - from) |-> "/" \o segs[i + from]]
       IN  IF segs[1] = "" /\ Len(segs) > 1 THEN <<"/" \o segs[2]>> \o rest(2)
           ELSE <<segs[1]>> \o rest(1)
Value(part) == IF Len(part) > 0 /\ SubSeq(part, 1, 1) = "/" THEN SubSeq(part, 2, Len(part)) ELSE part
Values(path) == [i \in DOMAIN path |-> Value(path[i])]
PathPrefixes(path) == {SubSeq(path, 1, n) : n \in 1..Len(path)}

-----------------------------------------------------------------------------
Init ==
  /\ \E s \in Subsets : model = [types |-> InOrder(s), filter |-> <<>>, mergeH |-> FALSE, mergeP |-> FALSE, via |-> "api"]
  /\ phase = "analysis" /\ ci = 1
  /\ nodeList = {} /\ relationList = <<>>
  /\ mergeQ = <<>> /\ inMerge = FALSE /\ pending = {}
  /\ result = [nodes |-> {}, rels |-> <<>>]
  /\ trie = {} /\ registered = <<>>
  /\ obs = [panic |-> FALSE, hasGraph |-> TRUE,
            graph |-> [nodes |-> <<>>, relations |-> <<>>], final |-> [nodes |-> <<>>, relations |-> <<>>],
            dot |-> [wellformed |-> TRUE, nodes |-> <<>>, edges |-> <<>>]]
  /\ verdict = {}

Put(m, k, v) == (k :> v) @@ m              \* m[k] = v on a Go map
Rel(a, b) == <<a, b>>
RelKey(a, b) == a \o "->" \o b

\* identifiersMap = BuildIdentifierMap(identifiers): every class of the project, Main included
IdentifiersMap == Project(model)

\* the body of Analysis' loop for one class (the order inside does not matter: a map keyed from->to)
ClassRelations(t) ==
  LET src == Full(t)
      hard == Range(t.impls) \cup {TargetId(f) : f \in Range(t.fields)} \cup (IF t.ext # "" THEN {t.ext} ELSE {})
      calls == UNION {{TargetId(c) : c \in Range(m.calls)} : m \in {x \in Range(t.methods) : x.name # "main"}}
      dsts == hard \cup {d \in calls : d # src /\ d \in IdentifiersMap}
  IN  {Rel(src, d) : d \in dsts}

SkipMain ==         \* `if clz.NodeName == "Main" { continue }`
  /\ phase = "analysis" /\ ci <= Len(model.types) /\ model.types[ci].name = "Main"
  /\ \E s \in RelChoices : model' = [model EXCEPT !.types[ci] = WithRels(@, s)]
  /\ ci' = ci + 1
  /\ UNCHANGED <<phase, nodeList, relationList, mergeQ, inMerge, pending, result, trie, registered, obs, verdict>>

AnalyzeClass ==
  /\ phase = "analysis" /\ ci <= Len(model.types) /\ model.types[ci].name # "Main"
  /\ \E s \in RelChoices :
       LET t == WithRels(model.types[ci], s)
           rs == ClassRelations(t)
       IN  /\ model' = [model EXCEPT !.types[ci] = t]
           /\ nodeList' = nodeList \cup {Full(t)}
           /\ relationList' = [k \in DOMAIN relationList \cup {RelKey(r[1], r[2]) : r \in rs} |->
                                 IF \E r \in rs : RelKey(r[1], r[2]) = k
                                 THEN CHOOSE r \in rs : RelKey(r[1], r[2]) = k
                                 ELSE relationList[k]]
  /\ ci' = ci + 1
  /\ UNCHANGED <<phase, mergeQ, inMerge, pending, result, trie, registered, obs, verdict>>

Project2(ns, rl) ==       \* the projection the harness applies to a FullGraph
  [nodes |-> SetToSeq(ns), relations |-> SetToSeq({rl[k] : k \in DOMAIN rl})]

AnalysisReturns ==
  /\ phase = "analysis" /\ ci > Len(model.types)
  /\ phase' = "analysed"
  /\ obs' = [obs EXCEPT !.graph = Project2(nodeList, relationList)]
  /\ UNCHANGED <<model, ci, nodeList, relationList, mergeQ, inMerge, pending, result, trie, registered, verdict>>

ReadSwitches ==     \* cmd/arch.go: IsMergeHeader first, then IsMergePackage
  /\ phase = "analysed"
  /\ \E m \in Modes :
       /\ model' = [model EXCEPT !.mergeH = m \in {"H", "HP"}, !.mergeP = m \in {"P", "HP"}]
       /\ mergeQ' = CASE m = "H" -> <<"H">> [] m = "P" -> <<"P">> [] m = "HP" -> <<"H", "P">> [] OTHER -> <<>>
  /\ phase' = "merge"
  /\ UNCHANGED <<ci, nodeList, relationList, inMerge, pending, result, trie, registered, obs, verdict>>

MergeNodes ==       \* MergeHeaderFile, first loop
  /\ phase = "merge" /\ mergeQ # <<>> /\ ~inMerge
  /\ result' = [nodes |-> {MergeFn(mergeQ[1], k) : k \in nodeList}, rels |-> <<>>]
  /\ inMerge' = TRUE /\ pending' = DOMAIN relationList
  /\ UNCHANGED <<model, phase, ci, nodeList, relationList, mergeQ, trie, registered, obs, verdict>>

MergeRelation ==    \* MergeHeaderFile, one iteration of the relation loop (map order: any pending key)
  /\ phase = "merge" /\ inMerge
  /\ \E k \in pending :
       LET r == relationList[k]
           mf == MergeFn(mergeQ[1], r[1])
           mt == MergeFn(mergeQ[1], r[2])
           key == IF FixKey THEN mf \o "->" \o mt ELSE mf \o mt
       IN  /\ pending' = pending \ {k}
           /\ result' = IF (FixLeaving /\ (r[1] \notin nodeList \/ r[2] \notin nodeList)) \/ mf = mt
                        THEN result
                        ELSE [result EXCEPT !.rels = Put(@, key, Rel(mf, mt))]
  /\ UNCHANGED <<model, phase, ci, nodeList, relationList, mergeQ, inMerge, trie, registered, obs, verdict>>

MergeReturns ==
  /\ phase = "merge" /\ inMerge /\ pending = {}
  /\ nodeList' = result.nodes /\ relationList' = result.rels
  /\ mergeQ' = Tail(mergeQ) /\ inMerge' = FALSE
  /\ UNCHANGED <<model, phase, ci, pending, result, trie, registered, obs, verdict>>

MergesDone ==
  /\ phase = "merge" /\ mergeQ = <<>> /\ ~inMerge
  /\ phase' = "merged"
  /\ obs' = [obs EXCEPT !.final = Project2(nodeList, relationList)]
  /\ UNCHANGED <<model, ci, nodeList, relationList, mergeQ, inMerge, pending, result, trie, registered, verdict>>

BuildMapTree ==     \* ToMapDot(nodeFilter): one PathTrie.Put per included node. Put only adds the prefixes of the
                    \* key's path to the trie, so the order of the map loop cannot matter: the loop is one step.
  /\ phase = "merged"
  /\ \E f \in Filters :
       /\ model' = [model EXCEPT !.filter = f]
       /\ trie' = UNION {PathPrefixes(Parts(n)) :
                           n \in {k \in nodeList : f = <<>> \/ \E i \in DOMAIN f : Contains(k, f[i])}}
  /\ phase' = "tree"
  /\ UNCHANGED <<ci, nodeList, relationList, mergeQ, inMerge, pending, result, registered, obs, verdict>>

Leaves == {p \in trie : ~\E q \in trie : Len(q) = Len(p) + 1 /\ SubSeq(q, 1, Len(p)) = p}
IdOf(p) == "node:" \o Join(p, "")
\* the name a leaf is registered under in MapToGraph's `nodes` map: (repaired) its trie path with "/" read
\* back as ".", i.e. the node key; (as found) the dotted join of the Values, which loses a leading "."
DottedName(p) == IF FixRegister /\ Len(p[1]) > 0 /\ SubSeq(p[1], 1, 1) = "/"
                 THEN "." \o Join(Values(p), ".") ELSE Join(Values(p), ".")

BuildGraphNodes ==  \* MapToGraph: buildGraphNode over the whole trie; only leaves are drawn and registered
  /\ phase = "tree"
  /\ registered' = [s \in {DottedName(p) : p \in Leaves} |-> IdOf(CHOOSE p \in Leaves : DottedName(p) = s)]
  /\ obs' = [obs EXCEPT !.dot.nodes =
               SetToSeq({[id |-> IdOf(p), label |-> Value(p[Len(p)]), path |-> Values(SubSeq(p, 1, Len(p) - 1))] : p \in Leaves})]
  /\ phase' = "graph"
  /\ UNCHANGED <<model, ci, nodeList, relationList, mergeQ, inMerge, pending, result, trie, verdict>>

DrawEdges ==        \* MapToGraph: `if nodes[relation.From] != "" && nodes[relation.To] != ""`
  /\ phase = "graph"
  /\ obs' = [obs EXCEPT !.dot.edges =
               SetToSeq({<<registered[r[1]], registered[r[2]]>> :
                           r \in {relationList[k] : k \in {x \in DOMAIN relationList :
                                    relationList[x][1] \in DOMAIN registered /\ relationList[x][2] \in DOMAIN registered}}})]
  /\ phase' = "done"
  /\ verdict' = Diff([case |-> "machine", input |-> model, observed |-> obs'])
  /\ UNCHANGED <<model, ci, nodeList, relationList, mergeQ, inMerge, pending, result, trie, registered>>

Finished == phase = "done"
Done == Finished /\ UNCHANGED vars

Next == SkipMain \/ AnalyzeClass \/ AnalysisReturns \/ ReadSwitches \/ MergeNodes \/ MergeRelation \/ MergeReturns
        \/ MergesDone \/ BuildMapTree \/ BuildGraphNodes \/ DrawEdges \/ Done

Spec == Init /\ [][Next]_vars /\ WF_vars(Next)

-----------------------------------------------------------------------------
(* Properties: the Machine's outputs satisfy the Reference. Each is evaluated on the step  *)
(* that finishes the unit it speaks about. Items carrying a known-finding tag would be    *)
(* excused (there is no such tag at present).                                              *)

Rec == [case |-> "machine", input |-> model, observed |-> obs]
Untagged(items) == {it \in items : it.tags = {}}
OfKinds(items, ks) == {it \in items : it.kind \in ks}

AnalysisDiff == GraphDiff("node", "edge", Nodes(model), Edges(model), obs.graph)

C13_NodesExact == phase = "analysed" => OfKinds(AnalysisDiff, {"missing-node", "spurious-node", "duplicate-node"}) = {}
C13_EdgesExact == phase = "analysed" => OfKinds(AnalysisDiff, {"missing-edge", "spurious-edge"}) = {}

C13_QuotientExact ==
  (phase = "merged" /\ Merged(model) /\ ~FreeMerge(model)) =>
     GraphDiff("merged-node", "merged-edge", QNodes(model), QEdges(model), obs.final) = {}

C13_DotEdgesBetweenDisplayed ==
  Finished => Untagged(OfKinds(verdict, {"dot-edge-to-undisplayed", "dot-edge-not-in-graph", "dot-edge-missing",
                                                        "dot-node-id-reused"})) = {}

C13_EachTypeOnce ==
  Finished => OfKinds(verdict, {"dot-type-missing", "dot-type-repeated", "dot-node-not-an-included-type",
                                               "dot-node-not-an-included-package", "dot-package-repeated"}) = {}

C13_Reference == Finished => Untagged(verdict) = {}

\* mid-way: the relation loop of a merge never records a self-loop, and (repaired) only merged nodes as ends
C13_MergeNoSelfLoop == \A k \in DOMAIN result.rels : result.rels[k][1] # result.rels[k][2]
C13_MergeBetweenNodes == FixLeaving => \A k \in DOMAIN result.rels : result.rels[k][1] \in result.nodes /\ result.rels[k][2] \in result.nodes

C13_Terminates == <>Finished

\* generation: emit every explored abstract input as a replay case for the real code
Emit == Finished => PrintT(<<"CASE", ToJson([input |-> model])>>)

\* how many explored inputs are excused by the known-finding tag (narrowness of the tag)
EmitTagged == Finished => (IF Untagged(verdict) = verdict THEN TRUE ELSE PrintT(<<"NOTE", "tagged", ToJson([input |-> model])>>))
=============================================================================
