----------------------------- MODULE X10Session -----------------------------
(* Machine of coca command sessions (extension X10): the directory coca_reporter/ as a     *)
(* cache shared by the commands of one working directory.                                 *)
(*                                                                                        *)
(* State: for every file later commands read, the set of session steps its content        *)
(* depends on (absent from the table = the file does not exist). One action per command,  *)
(* written branch by branch like cmd/*.go:                                                *)
(*   analysis  AnalysisJava: -i recomputes identify.json, otherwise the file is read;     *)
(*             deps.json is written                                                       *)
(*   api       LoadIdentify (reads identify.json, or computes and WRITES it when missing);*)
(*             reads deps.json; -f or no apis.json: forceUpdateApi scans the path and     *)
(*             writes apis.json, otherwise apis.json is read; writes api.csv, api.dot     *)
(*   arch      LoadIdentify; reads deps.json; writes arch.dot                             *)
(*   evaluate  reads deps.json and identify.json; writes evaluate.json                    *)
(*   call, rcall, count, concept, suggest   read deps.json                                *)
(*   tbs       LoadTestIdentify (reads tidentify.json, or computes and writes it)         *)
(*   bs, todo  read the source tree only                                                  *)
(* The history and the dependency set of every step are kept; at the end of a session     *)
(* the session and the slice of every step are emitted for replay on the real commands.   *)
(*                                                                                        *)
(* Checked here: the Machine's table equals the Reference's fold (X10_TableIsReference),  *)
(* slices are closed (X10_SliceClosed), and - the fact the Reference's statement rests    *)
(* on - replaying a slice alone reproduces for its last step the very files it found in   *)
(* the session, no more and no fewer (X10_SliceReplays). The two staleness properties     *)
(* at the end do NOT hold for the commands as they are (apis.json and tidentify.json are  *)
(* reused without any link to what they were computed from): TLC shows the shortest       *)
(* sessions in X10Session_MC_stale_EXPECTED_VIOLATION.cfg.                                *)
EXTENDS X10SessionRef, Json

CONSTANTS MaxSteps, Projects, Commands

VARIABLES fs, hist, deps
vars == <<fs, hist, deps>>

Init == fs = <<>> /\ hist = <<>> /\ deps = <<>>

Step(c, p, b) == [cmd |-> c, proj |-> p, flag |-> b]
N == Len(hist) + 1

\* the common tail of every action: record the step and what it depended on
Record(st, d, written) ==
  /\ hist' = Append(hist, st)
  /\ deps' = Append(deps, d)
  /\ fs' = [f \in DOMAIN fs \cup written |-> IF f \in written THEN d ELSE fs[f]]

Analysis(p, i) ==
  /\ "analysis" \in Commands
  /\ IF i
     THEN Record(Step("analysis", p, TRUE), {N}, {"identify.json", "deps.json"})
     ELSE \* "use local identify": whatever identify.json holds (nothing when it is missing)
          Record(Step("analysis", p, FALSE), {N} \cup DepOf(fs, "identify.json"), {"deps.json"})

\* LoadIdentify: the file when it is there, otherwise computed from the (dependence) path and written
LoadIdentifyDep   == IF Has(fs, "identify.json") THEN fs["identify.json"] ELSE {}
LoadIdentifyWrite == IF Has(fs, "identify.json") THEN {} ELSE {"identify.json"}

Api(p, f) ==
  /\ "api" \in Commands /\ Has(fs, "deps.json")
  /\ LET base == {N} \cup LoadIdentifyDep \cup fs["deps.json"]
     IN  IF f \/ ~Has(fs, "apis.json")
         THEN Record(Step("api", p, f), base, LoadIdentifyWrite \cup {"apis.json"})               \* forceUpdateApi
         ELSE Record(Step("api", p, f), base \cup fs["apis.json"], LoadIdentifyWrite)               \* the kept list

Arch ==
  /\ "arch" \in Commands /\ Has(fs, "deps.json")
  /\ Record(Step("arch", 0, FALSE), {N} \cup LoadIdentifyDep \cup fs["deps.json"], LoadIdentifyWrite)

Evaluate ==
  /\ "evaluate" \in Commands /\ Has(fs, "deps.json")
  /\ Record(Step("evaluate", 0, FALSE), {N} \cup DepOf(fs, "identify.json") \cup fs["deps.json"], {})

DepsOnly(c) ==
  /\ c \in Commands \cap {"call", "rcall", "count", "concept", "suggest"} /\ Has(fs, "deps.json")
  /\ Record(Step(c, 0, FALSE), {N} \cup fs["deps.json"], {})

Tbs(p) ==
  /\ "tbs" \in Commands
  /\ IF Has(fs, "tidentify.json")
     THEN Record(Step("tbs", p, FALSE), {N} \cup fs["tidentify.json"], {})
     ELSE Record(Step("tbs", p, FALSE), {N}, {"tidentify.json"})

\* todo: flag = a wider extension list (-e .java,.py instead of -e .java); bs: flag = sorted by type (-s type)
TreeOnly(c, p, b) ==
  /\ c \in Commands \cap {"bs", "todo"}
  /\ Record(Step(c, p, b), {N}, {})

Finished == Len(hist) = MaxSteps
DoAnalysis == ~Finished /\ \E p \in Projects, b \in BOOLEAN : Analysis(p, b)
DoApi      == ~Finished /\ \E p \in Projects, b \in BOOLEAN : Api(p, b)
DoArch     == ~Finished /\ Arch
DoEvaluate == ~Finished /\ Evaluate
DoDepsOnly == ~Finished /\ \E c \in {"call", "rcall", "count", "concept", "suggest"} : DepsOnly(c)
DoTbs      == ~Finished /\ \E p \in Projects : Tbs(p)
DoTreeOnly == ~Finished /\ \E p \in Projects, c \in {"bs", "todo"}, b \in BOOLEAN : TreeOnly(c, p, b)
Done == Finished /\ UNCHANGED vars
Next == DoAnalysis \/ DoApi \/ DoArch \/ DoEvaluate \/ DoDepsOnly \/ DoTbs \/ DoTreeOnly \/ Done
Spec == Init /\ [][Next]_vars

-----------------------------------------------------------------------------
\* the Machine's registers are the Reference's fold over the history
X10_TableIsReference ==
  /\ WellFormed(hist)
  /\ deps = Deps(hist)
  /\ fs = (IF hist = <<>> THEN <<>> ELSE After(Len(hist), hist[Len(hist)], Tables(hist)[Len(hist)]))

X10_SliceClosed == \A i \in DOMAIN deps : i \in deps[i] /\ \A j \in deps[i] : j <= i /\ deps[j] \subseteq deps[i]

\* Replaying the slice of the last step alone: every step of it is applicable, the last step finds exactly the
\* files it found in the session (same presence of everything it looks at), writes the same files, and depends on
\* the whole replay (nothing in a slice is superfluous).
X10_SliceReplays ==
  hist # <<>> =>
    LET i   == Len(hist)
        sl  == SliceOf(hist, i)
        sub == SubSession(hist, sl)
        k   == Len(sub)
        ts  == Tables(sub)
        tf  == Tables(hist)
    IN  /\ WellFormed(sub)
        /\ {f \in Reads(hist[i]) : Has(ts[k], f)} = {f \in Reads(hist[i]) : Has(tf[i], f)}
        /\ Reports(sub[k], ts[k]) = Reports(hist[i], tf[i])
        /\ Deps(sub)[k] = 1..k

Slices == [i \in DOMAIN hist |-> SetToSortSeq(deps[i], LAMBDA a, b : a < b)]
Emit == Finished => PrintT(<<"CASE", ToJson([steps |-> hist, slices |-> Slices])>>)

-----------------------------------------------------------------------------
(* Staleness (design level; NOT what the commands guarantee - see the EXPECTED_VIOLATION cfg) *)

LastAnalysisBefore(i) == IF \E j \in 1..(i - 1) : hist[j].cmd = "analysis"
                         THEN CHOOSE j \in 1..(i - 1) : hist[j].cmd = "analysis" /\ \A l \in (j + 1)..(i - 1) : hist[l].cmd # "analysis"
                         ELSE 0
\* what a reader of deps.json reports comes from the latest analysis only
X10_ReportsFollowLatestAnalysis ==
  \A i \in DOMAIN hist :
    hist[i].cmd \in DepsReaders =>
      \A j \in deps[i] : hist[j].cmd = "analysis" => hist[j].proj = hist[LastAnalysisBefore(i)].proj
\* the test-smell report of a tree comes from that tree
X10_TestIdentifiersOfTheTree ==
  \A i \in DOMAIN hist : hist[i].cmd = "tbs" => \A j \in deps[i] : hist[j].proj = hist[i].proj
=============================================================================
