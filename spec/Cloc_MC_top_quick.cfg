\* quick, top-file: every tree of <= 2 sub-directories out of {.idea, east, tea} x 2 languages x 3 file
\* options (up to 3 files with ties) per (directory, language), --top-size 0/1/2, DIR passed as "tree"
\* (spellings of DIR with a separator, which expose the tagged TrimLeft cutset defect: thorough cfgs)
SPECIFICATION Spec
CONSTANTS
  Shape = "top2q"
  Roots = {"tree"}
  ExtFilters = {"none"}
  Tops = {0, 1, 2}
  Stride = 1
INVARIANTS C16_RowPerDirectory C16_CellsExact C16_SummaryIsSum C16_AgreesWithBase C16_RunTargetsCurrentDir
           C16_TopSortedTruncated C16_TopJsonExact Emit
