\* thorough: two relation items per class (call + call-from-main to one target, field + call, self relations, extends +
\* implements ...): 2 types out of {a.A, a.Main, b.MainB}, 6 kinds x 4 targets, unmerged and header-merged
SPECIFICATION Spec
CONSTANTS
  Universe <- U_pair
  MinTypes = 2
  MaxTypes = 2
  Kinds = {"impl", "bare", "ext", "field", "call", "maincall"}
  MaxRel = 2
  Externals <- X_std
  Modes = {"none", "H"}
  Filters <- F_all
  FixKey = TRUE
  FixLeaving = TRUE
  FixRegister = TRUE
INVARIANTS C13_NodesExact C13_EdgesExact C13_QuotientExact C13_DotEdgesBetweenDisplayed C13_EachTypeOnce C13_Reference
           C13_MergeNoSelfLoop C13_MergeBetweenNodes
