-------------------------- MODULE X01MoveClass_Trace --------------------------
(* Trace validation: every line of trace.ndjson is one process history (one or two        *)
(* projects, each rendered to a directory and refactored by the real moveclass code);      *)
(* Diff (X01MoveClassRef) is the oracle.  Never blocks: each discrepancy is printed and     *)
(* the rest of the trace is still checked.                                                 *)
EXTENDS X01MoveClassRef, Json
VARIABLE l
Trace == ndJsonDeserialize("trace.ndjson")
Init == l = 1
Step == /\ l <= Len(Trace)
        /\ LET d == Diff(Trace[l])
           IN  IF d = {} THEN TRUE ELSE PrintT(<<"DIFF", l, ToJson(d)>>)
        /\ l' = l + 1
Spec == Init /\ [][Step]_l
Accepted == TLCGet("stats").diameter - 1 = Len(Trace)
=============================================================================
