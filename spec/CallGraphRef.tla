--------------------------- MODULE CallGraphRef ---------------------------
(* Property-level Reference for the call graph (C03), the reverse call graph (C04)   *)
(* and "same request twice in one process" (C07, call-graph part).                   *)
(* Pure operators over the abstract input record `in` (the JSON shape shared by the  *)
(* TLC generator, the Go renderer and the trace validator):                          *)
(*   in.methods : Seq([pkg, node, name, calls : Seq([pkg, node, name])])             *)
(*   in.di      : record  class-full-name -> class-full-name   (DI replacement)      *)
(* An operation is [kind, root, lookup, apis]; an observation is                     *)
(*   [panic, timeout, wellformed, edges : Seq(<<a,b>>), segs : Seq([marker, edges]), *)
(*    sizes : Seq(Nat), rmap : record callee -> Seq(caller)]                         *)
EXTENDS Naturals, Sequences, FiniteSets, TLC

Budget == 7          \* the fixed expansion budget of the forward graph (C03)

Range(s) == {s[i] : i \in DOMAIN s}
Min2(a, b) == IF a < b THEN a ELSE b

ClsOf(c) == c.pkg \o "." \o c.node
\* full name of a declared method / of a recorded call (a creation has an empty name)
Id(c) == IF c.name = "" THEN ClsOf(c) ELSE ClsOf(c) \o "." \o c.name

\* DI replacement of a callee: an injected interface is replaced by its implementation
Sub(di, c) == IF c.name # "" /\ ClsOf(c) \in DOMAIN di
              THEN di[ClsOf(c)] \o "." \o c.name
              ELSE Id(c)

Declared(in) == {Id(in.methods[i]) : i \in DOMAIN in.methods}

\* recorded calls of a method that have a receiver type at all (unresolved ones are not calls to anything)
Resolved(m) == SelectSeq(m.calls, LAMBDA c : c.node # "")

\* forward call map after DI replacement:  declared id -> Seq(callee id)
\* (`coca call` / `rcall` use no DI map; `coca api` passes one)
CallMapDI(in, di) ==
  [d \in Declared(in) |->
     LET m == in.methods[CHOOSE i \in DOMAIN in.methods : Id(in.methods[i]) = d /\
                               \A j \in DOMAIN in.methods : Id(in.methods[j]) = d => j <= i]
         r == Resolved(m)
     IN  [k \in DOMAIN r |-> Sub(di, r[k])]]

Succ(cm, a) == IF a \in DOMAIN cm THEN Range(cm[a]) ELSE {}
Expandable(cm, a) == a \in DOMAIN cm /\ cm[a] # <<>>

RECURSIVE ReachFrom(_, _, _)
ReachFrom(cm, frontier, seen) ==
  IF frontier = {} THEN seen
  ELSE LET nxt == (UNION {Succ(cm, a) : a \in frontier}) \ seen
       IN  ReachFrom(cm, nxt, seen \cup nxt)
Reach(cm, root) == ReachFrom(cm, {root}, {root})

\* number of expansions of the call tree unrolled from m, capped at cap+1 (infinite on cycles)
RECURSIVE Exp(_, _, _), ExpList(_, _, _, _)
Exp(cm, m, cap) == IF cap = 0 THEN 1 ELSE 1 + ExpList(cm, cm[m], 1, cap - 1)
ExpList(cm, lst, i, cap) ==
  IF i > Len(lst) THEN 0
  ELSE LET here == IF Expandable(cm, lst[i]) THEN Exp(cm, lst[i], cap) ELSE 0
       IN  IF here > cap THEN cap + 1 ELSE here + ExpList(cm, lst, i + 1, cap - here)

\* the largest number of callees any method of the model has
MaxOut(cm) == LET ls == {Len(cm[a]) : a \in DOMAIN cm} IN IF ls = {} THEN 0 ELSE CHOOSE n \in ls : \A k \in ls : k <= n

Fits(cm, root) == ~Expandable(cm, root) \/ Exp(cm, root, Budget) <= Budget

\* the reachable call relation from root
ReachRel(cm, root) ==
  IF ~Expandable(cm, root) THEN {}
  ELSE UNION {{<<a, b>> : b \in Range(cm[a])} : a \in {x \in Reach(cm, root) : Expandable(cm, x)}}

EdgeSet(es) == {<<es[i][1], es[i][2]>> : i \in DOMAIN es}

FwdSound(cm, root, e) == e[1] \in Reach(cm, root) /\ e[2] \in Succ(cm, e[1])

-----------------------------------------------------------------------------
(* Reverse relation (C04): project-internal, no DI replacement *)

\* callee id -> Seq(caller id), one entry per call site, in model order
RCallers(in, callee) ==
  LET RECURSIVE PerMethod(_), PerCall(_, _)
      PerCall(m, k) == IF k > Len(m.calls) THEN <<>>
                       ELSE (IF m.calls[k].node # "" /\ Id(m.calls[k]) = callee THEN <<Id(m)>> ELSE <<>>)
                            \o PerCall(m, k + 1)
      PerMethod(i) == IF i > Len(in.methods) THEN <<>>
                      ELSE PerCall(in.methods[i], 1) \o PerMethod(i + 1)
  IN PerMethod(1)

RMap(in) == LET all == [d \in Declared(in) |-> RCallers(in, d)]
            IN  [d \in {x \in Declared(in) : all[x] # <<>>} |-> all[d]]

RPred(rm, a) == IF a \in DOMAIN rm THEN Range(rm[a]) ELSE {}
RECURSIVE RReachFrom(_, _, _)
RReachFrom(rm, frontier, seen) ==
  IF frontier = {} THEN seen
  ELSE LET nxt == (UNION {RPred(rm, a) : a \in frontier}) \ seen
       IN  RReachFrom(rm, nxt, seen \cup nxt)
\* the target and its transitive callers
RReach(rm, target) == RReachFrom(rm, {target}, {target})

RevSound(rm, target, e) == e[2] \in RReach(rm, target) /\ e[1] \in RPred(rm, e[2])

Bag(s) == [x \in Range(s) |-> Cardinality({i \in DOMAIN s : s[i] = x})]

-----------------------------------------------------------------------------
(* Diff: the set of individual discrepancies between an observation and the Reference *)

Item(p, k, w, t) == [prop |-> p, kind |-> k, where |-> w, tags |-> t]

Crash(p, o) == (IF o.panic THEN {Item(p, "panic", "", {})} ELSE {}) \cup
               (IF o.timeout THEN {Item(p, "no-termination", "", {})} ELSE {}) \cup
               (IF ~o.panic /\ ~o.timeout /\ ~o.wellformed THEN {Item(p, "malformed-dot", "", {})} ELSE {})

DiffCall(in, op, o) ==
  LET cm == CallMapDI(in, <<>>)
      rm == RMap(in)
      es == EdgeSet(o.edges)
      sound(e) == FwdSound(cm, op.root, e) \/ (op.lookup /\ RevSound(rm, op.root, e))
  IN  Crash("C03", o) \cup
      (IF o.panic \/ o.timeout \/ ~o.wellformed THEN {} ELSE
        {Item("C03", "unsound-edge", ToString(e), {}) : e \in {x \in es : ~sound(x)}} \cup
        {Item("C03", "missing-root-callee", c, {}) : c \in {x \in Succ(cm, op.root) : <<op.root, x>> \notin es}} \cup
        (IF Fits(cm, op.root)
         THEN {Item("C03", "missing-reachable-edge", ToString(e), {}) : e \in ReachRel(cm, op.root) \ es}
         ELSE {}) \cup
        \* "terminates within its fixed expansion budget": an expansion writes one line per callee of the expanded method,
        \* so the chain has at most Budget expansions' worth of lines (one more expansion is tolerated: whether the root's
        \* own expansion counts is not stated). Without this a budget that no longer bounds the work goes unnoticed as long
        \* as every line it writes is a real call.
        (IF ~op.lookup /\ Len(o.edges) > (Budget + 1) * MaxOut(cm)
         THEN {Item("C03", "expansion-budget-exceeded", ToString(Len(o.edges)) \o " edge lines", {})} ELSE {}) \cup
        (IF op.lookup
         THEN {Item("C04", "missing-direct-caller", c, {}) :
                 c \in {x \in RPred(rm, op.root) \ {op.root} : <<x, op.root>> \notin es}}
         ELSE {}))

DiffApi(in, op, o) ==
  LET cm == CallMapDI(in, in.di)
      seg(i) == o.segs[i]
      handler(i) == Id(op.apis[i])
      one(i) ==
        LET es == EdgeSet(seg(i).edges)
            r  == handler(i)
        IN  (IF seg(i).marker # <<op.apis[i].verb \o " " \o op.apis[i].uri, r>>
             THEN {Item("C03", "api-root-marker", ToString(i), {})} ELSE {}) \cup
            {Item("C03", "unsound-edge", ToString(e), {}) : e \in {x \in es : ~FwdSound(cm, r, x)}} \cup
            {Item("C03", "missing-root-callee", c, {}) : c \in {x \in Succ(cm, r) : <<r, x>> \notin es}} \cup
            (IF Fits(cm, r)
             THEN {Item("C03", "missing-reachable-edge", ToString(e), {}) : e \in ReachRel(cm, r) \ es}
             ELSE {}) \cup
            (IF i \in DOMAIN o.sizes /\ o.sizes[i] = Len(seg(i).edges) + 1 THEN {}
             ELSE {Item("C03", "api-size", ToString(i), {})})
  IN  Crash("C03", o) \cup
      (IF o.panic \/ o.timeout \/ ~o.wellformed THEN {} ELSE
        (IF Len(o.segs) # Len(op.apis) \/ Len(o.sizes) # Len(op.apis)
         THEN {Item("C03", "api-count", "", {})}
         ELSE UNION {one(i) : i \in DOMAIN op.apis}))

DiffRCall(in, op, o) ==
  LET rm == RMap(in)
      es == EdgeSet(o.edges)
      okeys == DOMAIN o.rmap
  IN  Crash("C04", o) \cup
      (IF o.panic \/ o.timeout THEN {} ELSE
        {Item("C04", "rmap-undeclared-key", k, {}) : k \in okeys \ Declared(in)} \cup
        {Item("C04", "rmap-missing-key", k, {}) : k \in DOMAIN rm \ okeys} \cup
        {Item("C04", "rmap-callers", k, {}) : k \in {x \in okeys \cap DOMAIN rm : Bag(o.rmap[x]) # Bag(rm[x])}} \cup
        {Item("C04", "rmap-callers", k, {}) : k \in {x \in (okeys \cap Declared(in)) \ DOMAIN rm : o.rmap[x] # <<>>}}) \cup
      (IF o.panic \/ o.timeout \/ ~o.wellformed THEN {} ELSE
        {Item("C04", "unsound-edge", ToString(e), {}) : e \in {x \in es : ~RevSound(rm, op.root, x)}} \cup
        {Item("C04", "missing-direct-caller", c, {}) :
           c \in {x \in RPred(rm, op.root) \ {op.root} : <<x, op.root>> \notin es}})

\* clicall / clircall: the same requests made through the coca binary on a deps.json (call.dot, rcall.dot, rcallmap.json)
DiffOp(in, op, o) ==
  CASE op.kind \in {"call", "clicall"}   -> DiffCall(in, op, o)
    [] op.kind = "api"                    -> DiffApi(in, op, o)
    [] op.kind \in {"rcall", "clircall"} -> DiffRCall(in, op, o)

\* what must be equal when the same request is repeated in one process (C07)
Graph(o) == [panic |-> o.panic, timeout |-> o.timeout, wellformed |-> o.wellformed,
             edges |-> Bag(o.edges), sizes |-> o.sizes, rmap |-> o.rmap]

\* A case is a history of operations executed in ONE process. The first operation is
\* judged against C03/C04; every later operation must additionally yield the same
\* graph as the first occurrence of the same request (C07).
Diff(rec) ==
  LET in == rec.input
      n  == Len(rec.ops)
      first(i) == CHOOSE j \in 1..i : rec.ops[j] = rec.ops[i] /\ \A k \in 1..j - 1 : rec.ops[k] # rec.ops[i]
  IN  UNION {DiffOp(in, rec.ops[i], rec.observed[i]) : i \in {j \in 1..n : first(j) = j}} \cup
      {Item("C07", "repeat-differs", ToString(i), {}) :
         i \in {j \in 1..n : first(j) # j /\ Graph(rec.observed[j]) # Graph(rec.observed[first(j)])}}
=============================================================================
