\* thorough: every text of <= 4 cells over the wider alphabet (adds a one-letter word, a tab and an
\* identifier that merely starts with the word), 4 files x 3 filter lists (selected by the first / the
\* second filter, unselected, unselected although the name contains a selected extension)
SPECIFICATION Spec
CONSTANTS
  MaxLen = 4
  Starts <- StartsNone
  Alphabet <- AlphaWide
  Files <- FilesWide
  FilterLists <- FiltersWide
  HashStrip = 1
INVARIANTS C17_NoCrashOnAnyShape C17_ReportedExact C17_LineCounter Emit
