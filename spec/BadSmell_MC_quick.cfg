\* quick: every input family in one run.
\*  boundary: one method, each measure at threshold-1 / threshold / threshold+1 (3^5) x name kind x class/interface x 0/1 annotation line
\*  shape:    7 ifs (switches) + one statement of every other kind, 4-line heads, nested 4-line ifs, variable-arity parameters
\*  class:    0 / 1 / 19 / 20 / 21 ordinary methods x 0 / 1 / 2 getters x extra setter / body-less method x class/interface
\*  sort:     up to 3 files with one sized finding each, one kind per sequence, 3 sizes in every order
\*  config:   three files showing every kind x all 2^9 ignore lists x sort on/off
SPECIFICATION Spec
CONSTANTS
  Profiles = {"boundary", "shape", "class", "sort", "config"}
  Lens = {29, 30, 31}
  Params = {4, 5, 6}
  IfCounts = {7, 8, 9}
  SwitchCounts = {7, 8, 9}
  Heights = {3, 4, 5}
  NameKinds = {"get", "set", "normal"}
  TypeKinds = {"class", "interface"}
  Anns = {0, 1}
  ClassNormals = {0, 1, 19, 20, 21}
  ClassGets = {0, 1, 2}
  SortLevels = {0, 1, 2}
  SortKinds = {"largeClass", "repeatedSwitches", "longParameterList", "longMethod", "dataClass"}
  SortMaxFiles = 3
  SortMix = FALSE
  IgnoreSets = {{}, {"longMethod", "complexCondition", "dataClass"}, {"repeatedSwitches", "longParameterList", "lazyElement", "largeClass"}}
  ConfigIgnoreOver = {"longMethod", "longParameterList", "largeClass", "dataClass", "lazyElement", "repeatedSwitches", "complexCondition", "refusedBequest", "graphConnectedCall"}
  Sorts = {FALSE, TRUE}
  Repaired = TRUE
INVARIANTS C10_LayoutOK C10_FindingsExact C10_IgnoreExact C10_SortedBySizeWithinKind C10_Reference Emit
