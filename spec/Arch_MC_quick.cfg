\* quick, analysis-centred: every model of 2 types out of {a.A, a.Main, b.AMain, C (unnamed package)} with at most one
\* relation item per class over 6 kinds (implements, bare supertype name, extends, field, call, call from `main`)
\* x 5 targets (the 4 candidate types, present or absent, and a library type), unmerged and header-merged, no filter
SPECIFICATION Spec
CONSTANTS
  Universe <- U_analysis
  MinTypes = 2
  MaxTypes = 2
  Kinds = {"impl", "bare", "ext", "field", "call", "maincall"}
  MaxRel = 1
  Externals <- X_std
  Modes = {"none", "H"}
  Filters <- F_all
  FixKey = TRUE
  FixLeaving = TRUE
  FixRegister = TRUE
INVARIANTS C13_NodesExact C13_EdgesExact C13_QuotientExact C13_DotEdgesBetweenDisplayed C13_EachTypeOnce C13_Reference
           C13_MergeNoSelfLoop C13_MergeBetweenNodes Emit
