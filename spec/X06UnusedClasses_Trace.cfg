SPECIFICATION Spec
POSTCONDITION Accepted
CHECK_DEADLOCK FALSE
