\* coca call -r with the repair: exact
SPECIFICATION Spec
CONSTANTS
  Cmd = "call"
  ModelPool = "shop"
  UriPool = "ab"
  RemovePool = "call"
  MaxApis = 0
  RemoveForm = "prefix"
  CsvForm = "quoted"
INVARIANTS X05_OutputExact
