\* the code AS IT IS with an item named like the channel end marker: every list of <= 2 transactions (sets) over "A" < "STOP" < "a"
SPECIFICATION Spec
CONSTANTS
  ItemPool = "stop"
  MaxTx = 2
  MinTxLen = 0
  MaxTxLen = 3
  Ascending = TRUE
  Mode = "miner"
  OptPool = "quick"
  IndexForm = "occurrences"
  Sentinel = "inband"
INVARIANTS X04_ResultExactOrTagged X04_CandidatesComplete X04_NoFrequentSetLost X04_CandidateShape X04_IndexTable Emit
