SPECIFICATION Spec
CONSTANTS
  Keys <- Rchain
  Shape = "fold"
  SortKey <- SKr
INVARIANTS C08_FoldOrderIndependent
