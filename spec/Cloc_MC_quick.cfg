\* quick, by-directory: every tree of <= 2 sub-directories out of {.git, .idea, coca_reporter, east, web}
\* x 2 languages x 4 file options per (directory, language), files directly in DIR, with and without
\* --include-ext=java
SPECIFICATION Spec
CONSTANTS
  Shape = "bydir2"
  Roots = {"tree"}
  ExtFilters = {"none", "java"}
  Tops = {1}
  Stride = 1
INVARIANTS C16_RowPerDirectory C16_CellsExact C16_SummaryIsSum C16_AgreesWithBase C16_RunTargetsCurrentDir
           C16_TopSortedTruncated C16_TopJsonExact Emit
