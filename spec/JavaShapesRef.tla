--------------------------- MODULE JavaShapesRef ---------------------------
(* The shape space of Java compilation units for C09 as a derivation machine: a unit *)
(* is a skeleton class plus a set of features (additional top-level types, member    *)
(* declarations, annotation forms, statement and expression forms); AddFeature adds  *)
(* one feature, Finish fixes the project shape (the unit alone, or sandwiched between*)
(* two ordinary files). Every reachable final state is emitted and rendered by the   *)
(* harness's snippet table (harness/cmd/javashapes), checked once against the        *)
(* shipped grammar (facts: valid), and run through the six passes.                   *)
(* Reference: for a valid unit every pass returns without panic, its result          *)
(* serialises, and in a sandwich the ordinary files keep their entries.              *)
EXTENDS Naturals, Sequences, FiniteSets, TLC, Json

Features == {"ann_array", "ann_const", "ann_local", "ann_marker", "ann_nested", "ann_pairs", "ann_param", "ann_single", "ann_typeuse", "anonymous_class", "array_creation", "array_field", "array_method", "chained_calls", "ctor_ref", "ctor_this_super", "explicit_targs", "generic_field", "generic_method", "inner_class", "inner_creation", "instance_init", "instanceof_pattern", "interface_generic_method", "labelled", "lambda0", "lambda1", "lambdaN", "lambda_typed", "literals", "local_class", "method_ref", "native_sync", "nested_annotation", "nested_enum", "nested_generics", "nested_interface", "nested_lambda_calls", "nested_record", "nested_static", "non_ascii", "override_tostring", "static_init", "switch_classic", "switch_expr", "sync_block", "ternary_cast", "text_block", "this_field_calls", "top_abstract", "top_annotation", "top_enum", "top_generic_bounded", "top_interface", "top_record", "try_resources", "var_local", "varargs"}

Passes == {"identifier", "full", "badsmell", "api", "refactor", "todo"}

Item(p, k, w, t) == [prop |-> p, kind |-> k, where |-> w, tags |-> t]

\* Reference (also used by JavaShapes_Trace)
Diff(rec) ==
  IF ~rec.valid THEN {}                              \* not a sentence of the shipped grammar: outside the quantifier
  ELSE UNION {
         LET o == rec.observed[i]
         IN  (IF o.panic THEN {Item("C09", "panic", o.pass \o ": " \o o.note, {})} ELSE {}) \cup
             (IF ~o.panic /\ ~o.serialises THEN {Item("C09", "result-not-serialisable", o.pass, {})} ELSE {}) \cup
             (IF ~o.panic /\ ~o.goodKept THEN {Item("C09", "ordinary-file-lost", o.pass, {})} ELSE {})
         : i \in DOMAIN rec.observed} \cup
       (IF Passes \subseteq {rec.observed[i].pass : i \in DOMAIN rec.observed} \/ \E i \in DOMAIN rec.observed : rec.observed[i].pass = "process"
        THEN {} ELSE {Item("C09", "pass-not-run", "", {})})
=============================================================================
