\* two Analysis calls in one process: every ordered pair of models of <= 2 classes (a service, a plain class) with <= 1
\* function (two return types, three parameter lists)
SPECIFICATION Spec
CONSTANTS
  MaxCalls = 2
  MaxClasses = 2
  MaxMethods = 1
  ClassPoolName = "pair"
  NamePool = {"doSave"}
  RetPool = {"void", "Order"}
  ParamPoolName = "pair"
  Ctors = FALSE
  LifecycleStore = "merge"
  CtorIsMethod = FALSE
INVARIANTS X08_Lifecycle X08_ReturnTypes X08_Related X08_SplitAgrees X08_Registers Emit
