\* thorough (Python, wide alphabet): <= 3 statements; adds `import a, b as c`, `from ..m import y as z, w` (the listed
\* known-finding shape), decorators with arguments, two decorators on one method, more method orders.
SPECIFICATION Spec
CONSTANTS
  Langs = {"py"}
  Detail = "structure"
  MaxDecls = 3
  MaxImports = 0
  Wide = TRUE
  SharedCell = FALSE
  FirstNameOnly = FALSE
  GlueImportAs = FALSE
INVARIANTS C20_NoCrash C20_GoDeclsExact C20_PyDeclsExact C20_GoMapOwnNames C20_PyNoStaleClass Emit
