\* lifecycle, two classes: <= 2 classes x <= 2 functions over eight names (one a capitalised stop word) or constructors
SPECIFICATION Spec
CONSTANTS
  MaxCalls = 1
  MaxClasses = 2
  MaxMethods = 2
  ClassPoolName = "services"
  NamePool = {"doSave", "doUpdate", "do2", "getA", "getB", "HTTPGet", "HTTPPut", "GetC"}
  RetPool = {"void"}
  ParamPoolName = "none"
  Ctors = TRUE
  LifecycleStore = "merge"
  CtorIsMethod = FALSE
INVARIANTS X08_Lifecycle X08_ReturnTypes X08_Related X08_SplitAgrees X08_Registers Emit
