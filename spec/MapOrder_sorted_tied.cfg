SPECIFICATION Spec
CONSTANTS
  Keys <- K4
  Shape = "sorted"
  SortKey <- SKtied
INVARIANTS C08_CollectionInvariant C08_PromisedOrderInvariant
