\* coca call -r: every root of the model 'shop', five single names
SPECIFICATION Spec
CONSTANTS
  Cmd = "call"
  ModelPool = "shop"
  UriPool = "ab"
  RemovePool = "call"
  MaxApis = 0
  RemoveForm = "anywhere"
  CsvForm = "joined"
INVARIANTS X05_OutputExactOrTagged Emit
