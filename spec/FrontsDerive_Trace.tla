------------------------- MODULE FrontsDerive_Trace -------------------------
(* Trace validation: every line of trace.ndjson is one derived source file run through  *)
(* the real Go / Python front-end in its own process; Diff (FrontsDeriveRef) is the     *)
(* oracle. Never blocks: each discrepancy is printed and the rest is still checked.     *)
EXTENDS FrontsDeriveRef
VARIABLE l
Trace == ndJsonDeserialize("trace.ndjson")
Init == l = 1
Step == /\ l <= Len(Trace)
        /\ LET d == Diff(Trace[l])
           IN  IF d = {} THEN TRUE ELSE PrintT(<<"DIFF", l, ToJson(d)>>)
        /\ l' = l + 1
Spec == Init /\ [][Step]_l
Accepted == TLCGet("stats").diameter - 1 = Len(Trace)
=============================================================================
