\* quick, structure: every file of <= 3 declarations over 2 struct types (with/without field), an interface,
\* value/pointer methods M, N on either type (with/without a receiver call) and a function, in every order
\* (methods before their type included); every Python module of <= 2 statements over the import forms,
\* (decorated) classes with 0..2 (decorated) methods / nested defs and (decorated) functions
SPECIFICATION Spec
CONSTANTS
  Langs = {"go", "py"}
  Detail = "structure"
  MaxDecls = 3
  MaxImports = 1
  Wide = FALSE
  SharedCell = FALSE
  FirstNameOnly = FALSE
  GlueImportAs = FALSE
INVARIANTS C20_NoCrash C20_GoDeclsExact C20_PyDeclsExact C20_GoMapOwnNames C20_PyNoStaleClass Emit
