\* quick, "structure": every Go file of <= 1 import and <= 3 declarations over 2 struct types A, b (with / without a
\* field), an interface (with / without a method), pointer method M and value method N on either type (with /
\* without a receiver call) and a function - in EVERY order, methods before their receiver type included; every
\* Python module of <= 3 statements over 5 import forms, (decorated) classes with 0..2 (decorated) methods and
\* nested defs, (decorated) functions with nested defs.
SPECIFICATION Spec
CONSTANTS
  Langs = {"go", "py"}
  Detail = "structure"
  MaxDecls = 3
  MaxImports = 1
  Wide = FALSE
  SharedCell = FALSE
  FirstNameOnly = FALSE
  GlueImportAs = FALSE
INVARIANTS C20_NoCrash C20_GoDeclsExact C20_PyDeclsExact C20_GoMapOwnNames C20_PyNoStaleClass Emit
