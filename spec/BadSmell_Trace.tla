--------------------------- MODULE BadSmell_Trace ---------------------------
(* Trace validation: every line of trace.ndjson is one rendered tree analysed by the   *)
(* real coca code (in process and through the coca binary); Diff (BadSmellRef) is the  *)
(* oracle. Never blocks: each discrepancy is printed and the rest is still checked.    *)
EXTENDS BadSmellRef, Json
VARIABLE l
Trace == ndJsonDeserialize("trace.ndjson")
Init == l = 1
Step == /\ l <= Len(Trace)
        /\ LET d == Diff(Trace[l])
           IN  IF d = {} THEN TRUE ELSE PrintT(<<"DIFF", l, ToJson(d)>>)
        /\ l' = l + 1
Spec == Init /\ [][Step]_l
Accepted == TLCGet("stats").diameter - 1 = Len(Trace)
=============================================================================
