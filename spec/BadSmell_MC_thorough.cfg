\* thorough: wider probes.
\*  boundary: each measure over 4 values around its threshold (4^5) x name kind x class/interface x 0/1/2 annotation lines
\*  class:    0 / 1 / 2 / 18 .. 22 ordinary methods x 0 .. 3 getters
\*  sort:     up to 3 files with one sized finding each, kinds mixed, 3 sizes in every order
\*  shape, config as in the quick cfg
SPECIFICATION Spec
CONSTANTS
  Profiles = {"boundary", "shape", "class", "sort", "config"}
  Lens = {29, 30, 31, 32}
  Params = {4, 5, 6, 7}
  IfCounts = {7, 8, 9, 10}
  SwitchCounts = {7, 8, 9, 10}
  Heights = {2, 3, 4, 5}
  NameKinds = {"get", "set", "normal"}
  TypeKinds = {"class", "interface"}
  Anns = {0, 1, 2}
  ClassNormals = {0, 1, 2, 18, 19, 20, 21, 22}
  ClassGets = {0, 1, 2, 3}
  SortLevels = {0, 1, 2}
  SortKinds = {"largeClass", "repeatedSwitches", "longParameterList", "longMethod", "dataClass"}
  SortMaxFiles = 3
  SortMix = TRUE
  IgnoreSets = {{}, {"longMethod", "complexCondition", "dataClass"}, {"repeatedSwitches", "longParameterList", "lazyElement", "largeClass"}}
  ConfigIgnoreOver = {"longMethod", "longParameterList", "largeClass", "dataClass", "lazyElement", "repeatedSwitches", "complexCondition", "refusedBequest", "graphConnectedCall"}
  Sorts = {FALSE, TRUE}
  Repaired = TRUE
INVARIANTS C10_LayoutOK C10_FindingsExact C10_IgnoreExact C10_SortedBySizeWithinKind C10_Reference Emit
