\* symbolic links (to a file, dangling, to a directory), a member called testData that is a directory, a link to one or a
\* plain file, a directory nested in a directory of the same name; the walker java; <= 1 line (quick tier: without the nested directory)
SPECIFICATION Spec
CONSTANTS
  Universe <- UniverseLinksQuick
  Walkers = {"java"}
  Roots <- RootsPlain
  Patterns <- PatternsQuick
  MaxLines = 1
  PathBase = "relative"
  TestDataTest = "directory"
  DirTest = "isdir"
INVARIANTS X07_Exact X07_Slice Emit
