\* thorough, eval part: a class body of <= 3 members over a tiny alphabet (<= 1 token of {static, @Nullable}, <= 1 return of {null, other}): 9 724 class bodies
SPECIFICATION Spec
CONSTANTS
  Part = "eval"
  Repaired = TRUE
  MaxCalls = 0
  Targets = 3
  WithOverload = FALSE
  PreToks = {"static", "@Nullable"}
  MaxPre = 1
  RetKinds = {"null", "other"}
  MaxRets = 1
  MaxMembers = 3
  WithCtor = TRUE
  MaxPieces = 1
  MaxNames = 1
INVARIANTS C18_CountsConserved C18_CountReference C18_StaticIsPermutationInvariant C18_NullableExactOnce C18_SummaryNumbers C18_NoStaleMethodState C18_ConceptSum Emit
