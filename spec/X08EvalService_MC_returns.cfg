\* return types: <= 3 classes (a service, two namesake plain classes in two packages, a class named like a built-in type)
\* with <= 2 functions over three return types
SPECIFICATION Spec
CONSTANTS
  MaxCalls = 1
  MaxClasses = 3
  MaxMethods = 2
  ClassPoolName = "returns"
  NamePool = {"a"}
  RetPool = {"Order", "Other", "String"}
  ParamPoolName = "none"
  Ctors = FALSE
  LifecycleStore = "merge"
  CtorIsMethod = FALSE
INVARIANTS X08_Lifecycle X08_ReturnTypes X08_Related X08_SplitAgrees X08_Registers Emit
