----------------------- MODULE X06UnusedClasses_Trace -----------------------
(* Trace validation: every line of trace.ndjson is one model handed to the real           *)
(* unusedclasses.Refactoring (built directly, produced by the real Java passes, or read   *)
(* from the deps.json the coca binary wrote) in a fresh process; Diff                     *)
(* (X06UnusedClassesRef) is the oracle.  Never blocks: each discrepancy is printed and    *)
(* the rest of the trace is still checked.                                                *)
EXTENDS X06UnusedClassesRef, Json
VARIABLE l
Trace == ndJsonDeserialize("trace.ndjson")
Init == l = 1
Step == /\ l <= Len(Trace)
        /\ LET d == Diff(Trace[l])
           IN  IF d = {} THEN TRUE ELSE PrintT(<<"DIFF", l, ToJson(d)>>)
        /\ l' = l + 1
Spec == Init /\ [][Step]_l
Accepted == TLCGet("stats").diameter - 1 = Len(Trace)
=============================================================================
