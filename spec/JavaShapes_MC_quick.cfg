SPECIFICATION Spec
CONSTANTS MaxFeatures = 2
INVARIANTS C09_ShapeSpace Emit
