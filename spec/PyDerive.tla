------------------------------ MODULE PyDerive ------------------------------
(* C20, last sentence: "Neither front-end crashes on a file its parser accepts."                *)
(* The quantifier is every file the front-end's own parser accepts; for Python that parser is   *)
(* generated from languages/g4/PythonParser.g4 + PythonLexer.g4, so the grammar the repository  *)
(* ships is the specification of the input space. PyGrammar.tla is generated from those two     *)
(* files of the tree under test (bin/g4tla.py: EBNF desugared, predicates and actions dropped), *)
(* and this module is the LEFTMOST-DERIVATION machine of that grammar (same construction as     *)
(* JavaDerive for C09):                                                                         *)
(*   stack : the sentential form still to be expanded; every symbol carries the depth it was   *)
(*           introduced at and a token ALLOWANCE b for its subtree,                             *)
(*   out   : the terminals derived so far (the sentence).                                       *)
(*   Expand  : replace the leftmost non-terminal by one of the alternatives whose smallest      *)
(*             sentence fits its allowance; the rest of the allowance is shared among the       *)
(*             alternative's non-terminals (the budget reaches every part of the tree, not just *)
(*             the leftmost construct). Nothing fits, or deeper than MaxDepth: the alternative  *)
(*             of minimal height (MinAlt), so every derivation ends.                            *)
(*   Shift   : move a leading terminal to the sentence; a token CLASS (NAME, STRING, numbers)    *)
(*             gets one of NLex lexemes - the harness holds the lexeme table. INDENT, DEDENT    *)
(*             and LINE_BREAK have no lexer rule (the shipped lexer synthesises them from the   *)
(*             layout): they stay token classes and the RENDERER turns them back into layout.   *)
(*   Finish  : sentence complete; the layout (indent unit, line ends, comments, final newline)  *)
(*             is drawn.                                                                        *)
(* A derivation starts in one of Contexts: a whole file, or a conventional wrapper around the   *)
(* non-terminals of interest (class with methods, function with body, statements, expressions,  *)
(* decorators, imports ...) so that the budget is spent there. Because predicates are dropped   *)
(* (Python 2 / Python 3 alternatives) the machine derives a superset of the language: the       *)
(* harness asks the front-end's own parser (`accepts`), and only accepted files are judged by   *)
(* FrontsDeriveRef!Diff. Used with `tlc -simulate`: each behaviour is one random derivation.    *)
EXTENDS PyGrammar, Naturals, Sequences, FiniteSets, Json

CONSTANTS MaxDepth,      \* non-terminals introduced deeper than this are closed by MinAlt
          Budgets,       \* token budgets of a derivation (one is chosen in Init and shared by the holes of the context)
          NLex           \* lexemes per token class

VARIABLES ctx, stack, out, layout, done
vars == <<ctx, stack, out, layout, done>>

N(v) == [k |-> "N", v |-> v, d |-> 0, b |-> 0]    \* b: the token allowance of the subtree, set in Init for the holes of a context
T(v) == [k |-> "T", v |-> v, d |-> 0, b |-> 1]
K(v) == [k |-> "K", v |-> v, d |-> 0, b |-> 1]
Name == K("NAME")
NL   == K("LINE_BREAK")
Ind  == K("INDENT")
Ded  == K("DEDENT")

\* token classes that are layout, not text: one "lexeme"
LayoutClasses == {"LINE_BREAK", "INDENT", "DEDENT"}

Contexts ==
  [ file      |-> <<N("file_input")>>,
    module    |-> <<T("import"), N("dotted_as_names"), NL, N("stmt"), N("stmt"), N("stmt")>>,
    imports   |-> <<T("import"), N("dotted_as_names"), NL,
                    T("from"), N("from_stmt_source"), T("import"), N("from_stmt_as_names"), NL,
                    T("import"), N("dotted_as_names"), NL,
                    T("from"), N("from_stmt_source"), T("import"), N("from_stmt_as_names"), NL>>,
    class     |-> <<T("class"), Name, T(":"), NL, Ind, N("funcdef"), N("funcdef"), Ded>>,
    classdef  |-> <<N("classdef"), N("classdef")>>,
    classdeco |-> <<N("decorator"), N("decorator"), N("classdef")>>,
    method    |-> <<T("class"), Name, T("("), N("arglist"), T(")"), T(":"), NL, Ind,
                    N("decorator"), N("funcdef"), N("stmt"), N("funcdef"), Ded>>,
    func      |-> <<N("funcdef"), N("funcdef")>>,
    funcdeco  |-> <<N("decorator"), N("funcdef"), N("decorator"), N("decorator"), N("funcdef")>>,
    nested    |-> <<T("def"), Name, T("("), T(")"), T(":"), NL, Ind, N("funcdef"), N("classdef"), Ded,
                    T("class"), Name, T(":"), NL, Ind, N("classdef"), N("funcdef"), Ded>>,
    params    |-> <<T("def"), Name, T("("), N("typedargslist"), T(")"), T(":"), T("pass"), NL,
                    T("def"), Name, T("("), N("typedargslist"), T(")"), T("->"), N("test"), T(":"), T("pass"), NL>>,
    body      |-> <<T("def"), Name, T("("), Name, T(")"), T(":"), NL, Ind, N("stmt"), N("stmt"), N("stmt"), Ded>>,
    compound  |-> <<N("compound_stmt"), N("compound_stmt")>>,
    simple    |-> <<N("simple_stmt"), N("simple_stmt"), N("simple_stmt")>>,
    expr      |-> <<Name, T("="), N("test"), NL, N("expr"), NL, Name, T("("), N("arglist"), T(")"), NL>>,
    deco      |-> <<T("@"), N("dotted_name"), T("("), N("arglist"), T(")"), NL, N("decorator"),
                    T("def"), Name, T("("), T(")"), T(":"), T("pass"), NL,
                    T("@"), N("dotted_name"), NL, T("class"), Name, T(":"), T("pass"), NL>>
  ]

\* how the renderer lays the sentence out (the lexer computes INDENT / DEDENT / LINE_BREAK from this)
Layouts == [indent : {"1", "2", "4", "8", "tab"}, eol : {"lf", "crlf"}, final : {"nl", "none"},
            comment : {"none", "eol", "line", "blank"}]
PlainLayout == [indent |-> "4", eol |-> "lf", final |-> "nl", comment |-> "none"]

\* the holes of a context share the budget of the derivation equally
Holes(c) == Cardinality({i \in DOMAIN c : c[i].k = "N"})
Init == /\ ctx \in DOMAIN Contexts
        /\ \E budget \in Budgets :
             stack = [i \in DOMAIN Contexts[ctx] |->
                        IF Contexts[ctx][i].k = "N" THEN [Contexts[ctx][i] EXCEPT !.b = budget \div Holes(Contexts[ctx])]
                        ELSE Contexts[ctx][i]]
        /\ out = <<>> /\ layout = PlainLayout /\ done = FALSE

\* the smallest number of tokens a symbol / an alternative derives (MinSize comes with the grammar)
Size(sym) == IF sym.k = "N" THEN MinSize[sym.v] ELSE 1
RECURSIVE SeqSize(_, _)
SeqSize(a, i) == IF i > Len(a) THEN 0 ELSE Size(a[i]) + SeqSize(a, i + 1)

\* Expand: the leftmost non-terminal is replaced by an alternative that FITS its allowance (its smallest sentence is not
\* longer); what the alternative does not need is shared equally among its non-terminals, so the budget is spread over
\* the whole tree instead of being spent on the leftmost construct. Nothing fits, or too deep: the alternative of
\* minimal height (MinAlt) closes the symbol, so every derivation ends.
Expand ==
  /\ ~done /\ stack # <<>> /\ Head(stack).k = "N"
  /\ LET s == Head(stack)
         alts == Alts[s.v]
         fits == {a \in 1..Len(alts) : SeqSize(alts[a], 1) <= s.b}
     IN  \E a \in (IF s.d >= MaxDepth \/ fits = {} THEN {MinAlt[s.v]} ELSE fits) :
           LET alt == alts[a]
               n == Cardinality({i \in DOMAIN alt : alt[i].k = "N"})
               need == SeqSize(alt, 1)
               share == IF n = 0 \/ s.b <= need THEN 0 ELSE (s.b - need) \div n
           IN  stack' = [i \in 1..Len(alt) |->
                           [k |-> alt[i].k, v |-> alt[i].v, d |-> s.d + 1,
                            b |-> Size(alt[i]) + (IF alt[i].k = "N" THEN share ELSE 0)]] \o Tail(stack)
  /\ UNCHANGED <<ctx, out, layout, done>>

Shift ==
  /\ ~done /\ stack # <<>> /\ Head(stack).k # "N"
  /\ LET s == Head(stack)
     IN  IF s.k = "T" THEN out' = Append(out, s.v)
         ELSE \E i \in (IF s.v \in LayoutClasses THEN {0} ELSE 0..(NLex - 1)) :
                out' = Append(out, "@" \o s.v \o "#" \o ToString(i))
  /\ stack' = Tail(stack)
  /\ UNCHANGED <<ctx, layout, done>>

Finish ==
  /\ ~done /\ stack = <<>>
  /\ done' = TRUE
  \* one successor only (TLC evaluates Emit on every successor it generates): the layout is drawn, not branched on
  /\ layout' = IF RandomElement(0..1) = 0 THEN PlainLayout ELSE RandomElement(Layouts)
  /\ UNCHANGED <<ctx, stack, out>>

\* no step after Finish: with deadlock checking off a behaviour ends there
Next == Expand \/ Shift \/ Finish
Spec == Init /\ [][Next]_vars

-----------------------------------------------------------------------------
Count(tok) == Cardinality({i \in DOMAIN out : out[i] = tok})

\* the machine only ever holds symbols of the grammar, and a closed derivation is a sentence (terminals only)
C20_SentenceOfGrammar ==
  /\ \A i \in DOMAIN stack : stack[i].k \in {"N", "T", "K"} /\ (stack[i].k = "N" => stack[i].v \in DOMAIN Alts)
  /\ \A i \in DOMAIN stack : stack[i].k = "N" => stack[i].b >= 0
  /\ (done => stack = <<>>)
\* what "fits" relies on: below the holes of the context every symbol's allowance covers its smallest sentence
C20_AllowanceCoversMinimum == \A i \in DOMAIN stack : stack[i].d > 0 => stack[i].b >= Size(stack[i])
\* the budget bounds every derivation (slack: a symbol closed by MinAlt may need more than its allowance)
MaxBudget == CHOOSE m \in Budgets : \A x \in Budgets : x <= m
C20_Bounded == Len(out) <= MaxBudget + Len(Contexts[ctx]) + 400
\* what the renderer relies on: blocks nest (never more DEDENTs than INDENTs, equal at the end)
C20_BlocksNest ==
  /\ Count("@DEDENT#0") <= Count("@INDENT#0")
  /\ (done => Count("@DEDENT#0") = Count("@INDENT#0"))

Emit == done => PrintT(<<"CASE", ToJson([lang |-> "py", ctx |-> ctx, tokens |-> out, layout |-> layout])>>)
=============================================================================
