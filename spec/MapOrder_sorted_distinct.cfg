SPECIFICATION Spec
CONSTANTS
  Keys <- K4
  Shape = "sorted"
  SortKey <- SKdistinct
INVARIANTS C08_CollectionInvariant C08_PromisedOrderInvariant
