\* quick: every class of <= 3 functions over 48 shapes (constructor or not; 0/4/5/6 parameters;
\* 0/8/9 calls; 2/3 lines: the values on both sides of every threshold of R2 and R3), one class per model (interfaces: X02Suggest_MC_pair.cfg);
\* repaired longest-constructor register and merge (proposed_fixes/X02-1.patch, X02-2.patch)
SPECIFICATION Spec
CONSTANTS
  MaxClasses = 1
  MaxFuncs = 3
  Types = {"Class"}
  Shapes <- ShapesQuick
  LongestInit = "constructors"
  MergeKeeps = "first"
INVARIANTS X02_SuggestionsExact X02_OnePerClass X02_CounterRegister Emit
