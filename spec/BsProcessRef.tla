--------------------------- MODULE BsProcessRef ---------------------------
(* Reference for the bad-smell part of C07 (reference-free, exactly the statement):    *)
(* the bad-smell entry produced for a file is the same in every run of the history     *)
(* that contains the file - whatever other files the directory holds, in whatever      *)
(* order, in the same process or in a fresh one, and however often the pass ran before.*)
(* rec.observed[r].slices : Seq([file, entry])                                         *)
EXTENDS Naturals, Sequences, FiniteSets, TLC

Item(p, k, w, t) == [prop |-> p, kind |-> k, where |-> w, tags |-> t]
EntriesOf(o, f) == {o.slices[i].entry : i \in {j \in DOMAIN o.slices : o.slices[j].file = f}}

Diff(rec) ==
  LET n == Len(rec.runs)
      has(r, f) == \E k \in DOMAIN rec.runs[r] : rec.runs[r][k] = f
  IN  {Item("C07", "panic", "bad-smell pass, run " \o ToString(r), {}) : r \in {x \in 1..n : rec.observed[x].panic}} \cup
      {Item("C07", "file-result-missing-or-duplicated", "bs file " \o ToString(t[1]) \o " run " \o ToString(t[2]), {}) :
          t \in {t \in (1..rec.nfiles) \X (1..n) : has(t[2], t[1]) /\ ~rec.observed[t[2]].panic /\ Cardinality(EntriesOf(rec.observed[t[2]], t[1])) # 1}} \cup
      {Item("C07", "file-result-differs", "bs file " \o ToString(t[1]) \o " runs " \o ToString(<<t[2], t[3]>>), {}) :
          t \in {t \in (1..rec.nfiles) \X (1..n) \X (1..n) :
                   /\ t[2] < t[3] /\ has(t[2], t[1]) /\ has(t[3], t[1])
                   /\ ~rec.observed[t[2]].panic /\ ~rec.observed[t[3]].panic
                   /\ EntriesOf(rec.observed[t[2]], t[1]) # EntriesOf(rec.observed[t[3]], t[1])}}
=============================================================================
