------------------------------ MODULE X03Visual ------------------------------
(* Implementation-shaped Machine of visual.FromDeps (pkg/application/visual/visual.go): *)
(*   for _, dep := range deps {            NewDep   groupIndex++, nodeMap[full(dep)]      *)
(*     for _, pkg := range dep.FunctionCalls {                                           *)
(*                                         NewCall  `if BuildClassFullName() != ""`:      *)
(*                                                  nodeMap[callee], links = append(..),  *)
(*                                                  sourceTargetMap[key]++               *)
(*   for _, value := range nodeMap         CollectNodes                                  *)
(*   for _, link := range links { link.Value = sourceTargetMap[key] }     ValueStep       *)
(*   data.Links = links                    Finish                                        *)
(* The model is chosen incrementally (one class / one call per action), so TLC          *)
(* enumerates every model of <= MaxDeps classes with <= MaxCalls calls each over the     *)
(* name pools; at Finish the Machine's output is judged by the same Reference            *)
(* (X03VisualRef!Diff) that judges the real code, and the model is emitted as a replay   *)
(* case.  Three switches name the places where the code as it is deviates from the       *)
(* statement (proposed_fixes/X03.md); the registered cfgs use the repaired setting, the  *)
(* `_asis` cfg the unrepaired one.                                                       *)
EXTENDS X03VisualRef, Json

CONSTANTS MaxDeps, MaxCalls,
          Pkgs,          \* package names of classes and callees
          ClassNames,    \* class names of the classes of the model
          CalleeNames,   \* class names of callees ("" = a call without class)
          ValueLoop,     \* "copy":  `for _, link := range links { link.Value = .. }` assigns to the loop copy
                         \* "index": `links[i].Value = ..` (proposed_fixes/X03-1.patch)
          CalleeTest,    \* "fullname": `BuildClassFullName() != ""` (never false: the name contains the dot)
                         \* "classname": `NodeName != ""` (proposed_fixes/X03-1.patch)
          KeyForm        \* "concat": source + ".coca." + target;  "pair": a two-field key (X03-1.patch)

VARIABLES deps,          \* the model chosen so far (input)
          phase,         \* "deps" | "nodes" | "values" | "done"
          groupIndex,    \* register
          nodeMap,       \* map id -> group, as a set of [id, group] with unique ids
          stm,           \* sourceTargetMap: function key -> count
          links,         \* the links slice
          li,            \* index of the value loop
          outNodes, outLinks

vars == <<deps, phase, groupIndex, nodeMap, stm, links, li, outNodes, outLinks>>

Init ==
  /\ deps = <<>> /\ phase = "deps" /\ groupIndex = 0
  /\ nodeMap = {} /\ stm = <<>> /\ links = <<>> /\ li = 1
  /\ outNodes = <<>> /\ outLinks = <<>>

Put(map, id, g) == {n \in map : n.id # id} \cup {[id |-> id, group |-> g]}
Key(s, t) == IF KeyForm = "concat" THEN <<s \o ".coca." \o t>> ELSE <<s, t>>
Bump(f, k) == IF k \in DOMAIN f THEN [f EXCEPT ![k] = @ + 1] ELSE f @@ (k :> 1)
Passes(c) == IF CalleeTest = "fullname" THEN FullOf(c) # "" ELSE c.name # ""

NewDep ==            \* outer loop body up to the inner loop
  /\ phase = "deps" /\ Len(deps) < MaxDeps
  /\ \E p \in Pkgs, n \in ClassNames :
       /\ deps' = Append(deps, [pkg |-> p, name |-> n, calls |-> <<>>])
       /\ groupIndex' = groupIndex + 1
       /\ nodeMap' = Put(nodeMap, Full(p, n), groupIndex + 1)
  /\ UNCHANGED <<phase, stm, links, li, outNodes, outLinks>>

NewCall ==           \* inner loop body
  /\ phase = "deps" /\ deps # <<>> /\ Len(deps[Len(deps)].calls) < MaxCalls
  /\ \E p \in Pkgs, n \in CalleeNames :
       LET c == [pkg |-> p, name |-> n]
           d == deps[Len(deps)]
       IN  /\ deps' = [deps EXCEPT ![Len(deps)].calls = Append(@, c)]
           /\ IF Passes(c)
              THEN /\ nodeMap' = Put(nodeMap, FullOf(c), groupIndex)
                   /\ links' = Append(links, [source |-> FullOf(d), target |-> FullOf(c), value |-> 1])
                   /\ stm' = Bump(stm, Key(FullOf(d), FullOf(c)))
              ELSE UNCHANGED <<nodeMap, links, stm>>
  /\ UNCHANGED <<phase, groupIndex, li, outNodes, outLinks>>

EndDeps ==
  /\ phase = "deps"
  /\ phase' = "nodes"
  /\ UNCHANGED <<deps, groupIndex, nodeMap, stm, links, li, outNodes, outLinks>>

\* `for _, value := range nodeMap`: the order is Go's map order; the Reference judges a set, one order suffices
RECURSIVE SeqOf(_)
SeqOf(S) == IF S = {} THEN <<>> ELSE LET x == CHOOSE y \in S : TRUE IN <<x>> \o SeqOf(S \ {x})

CollectNodes ==
  /\ phase = "nodes"
  /\ outNodes' = SeqOf(nodeMap)
  /\ phase' = "values"
  /\ UNCHANGED <<deps, groupIndex, nodeMap, stm, links, li, outLinks>>

ValueStep ==
  /\ phase = "values" /\ li <= Len(links)
  /\ links' = IF ValueLoop = "index"
              THEN [links EXCEPT ![li].value = stm[Key(links[li].source, links[li].target)]]
              ELSE links                                   \* the loop variable is a copy
  /\ li' = li + 1
  /\ UNCHANGED <<deps, phase, groupIndex, nodeMap, stm, outNodes, outLinks>>

Finish ==
  /\ phase = "values" /\ li > Len(links)
  /\ outLinks' = links
  /\ phase' = "done"
  /\ UNCHANGED <<deps, groupIndex, nodeMap, stm, links, li, outNodes>>

Finished == phase = "done"
Done == Finished /\ UNCHANGED vars

Next == NewDep \/ NewCall \/ EndDeps \/ CollectNodes \/ ValueStep \/ Finish \/ Done
Spec == Init /\ [][Next]_vars

-----------------------------------------------------------------------------
(* Properties: the Machine's output satisfies the Reference *)

Observed == [panic |-> FALSE, wellformed |-> TRUE, nodes |-> outNodes, links |-> outLinks]

X03_NodesExact  == Finished => DiffNodes(deps, Observed) = {}
X03_LinksExact  == Finished => DiffLinks(deps, Observed) = {}
X03_LinkValues  == Finished => DiffValues(deps, Observed) = {}
X03_Groups      == Finished => DiffGroups(deps, Observed) = {}
\* register sanity: the counter table holds exactly the links appended so far
X03_CounterTable == phase = "deps" =>
  \A k \in DOMAIN stm : stm[k] = Cardinality({i \in DOMAIN links : Key(links[i].source, links[i].target) = k})

Emit == Finished => PrintT(<<"CASE", ToJson([input |-> [via |-> "model", deps |-> deps]])>>)

\* development aid (tlc -continue): print the violating models
ShowDiff == Finished => LET d == Diff([model |-> deps, observed |-> Observed])
                        IN  IF d = {} THEN TRUE ELSE PrintT(<<"NOTE", ToJson([deps |-> deps, diff |-> d])>>)
=============================================================================
