\* long parameter lists, quick: <= 2 classes (a service, a plain class) with <= 2 functions over six parameter lists (0, 3, 4, 4 permuted, 4 with one
\* other name, 5 names): the 4-parameter boundary; a plain class's functions are not fed
SPECIFICATION Spec
CONSTANTS
  MaxCalls = 1
  MaxClasses = 2
  MaxMethods = 2
  ClassPoolName = "pair"
  NamePool = {"a"}
  RetPool = {"void"}
  ParamPoolName = "long"
  Ctors = FALSE
  LifecycleStore = "merge"
  CtorIsMethod = FALSE
INVARIANTS X08_Lifecycle X08_ReturnTypes X08_Related X08_SplitAgrees X08_Registers Emit
