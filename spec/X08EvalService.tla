---------------------------- MODULE X08EvalService ----------------------------
(* Implementation-shaped Machine of the service summary of `coca evaluate`:                   *)
(*   evaluate.Analyser.Analysis (analyser.go)                                                 *)
(*     for _, node := range classNodes { nodeMap[node.NodeName] = node                        *)
(*                                       if node.IsServiceClass() { servicesNode = append }}  ScanNode *)
(*     Evaluation{Service{}}.EvaluateList(&result, servicesNode, nodeMap, identifiers)        *)
(*   evaluator.Service.EvaluateList (service.go)                                              *)
(*     serviceNodeMap = nodeMap; longParameterList = nil; returnTypeMap = make(..)            EvaluateListStart *)
(*     for _, node := range nodes { s.Evaluate(evaluateModel, node) }                         EvaluateNode *)
(*         methodNameArray (SplitCamelcase of every function name), buildLifecycle,           *)
(*         `if hasLifecycle { result.ServiceSummary.LifecycleMap = lifecycleMap }`,           *)
(*         longParameterList = append(..) for len(Parameters) >= 4,                           *)
(*         returnTypeMap[ReturnType] = append(.., full name) when serviceNodeMap has the type *)
(*     evaluateModel.ServiceSummary.ReturnTypeMap = returnTypeMap                             EndEvaluate *)
(*     findRelatedMethodParameters(evaluateModel, longParameterList)                          Mine *)
(* serviceNodeMap, returnTypeMap and longParameterList are PACKAGE-LEVEL variables: they keep *)
(* their values between two Analysis calls of one process (NextCall does not touch them).     *)
(* The miner is given (X04): Mine stores any group of >= 4 names that the miner's contract    *)
(* allows for the dataset built from longParameterList.                                       *)
(* The model is chosen incrementally (one class / one function per action); at the end of     *)
(* every call the Machine's result is judged by the same Reference (X08EvalServiceRef) that   *)
(* judges the real code, and the history of models is emitted as a replay case.               *)
(* Two switches name where the code as shipped deviates from the statement                    *)
(* (proposed_fixes/X08.md); the registered cfgs use the repaired setting, the `_asis` cfg     *)
(* the shipped one.                                                                           *)
EXTENDS X08EvalServiceRef, Json

CONSTANTS MaxCalls, MaxClasses, MaxMethods,
          ClassPoolName,    \* which set of [pkg, name] the classes are drawn from (ClassPool below)
          NamePool,         \* function names
          RetPool,          \* return types as written
          ParamPoolName,    \* which set of parameter-name lists (ParamPool below)
          Ctors,            \* TRUE: a function may also be a constructor (name = class name, no return type)
          LifecycleStore,   \* "overwrite": `result.ServiceSummary.LifecycleMap = lifecycleMap` per service (as shipped)
                            \* "merge":     the entries of every service are kept (proposed_fixes/X08-1.patch)
          CtorIsMethod      \* TRUE: constructors' names are split like method names (as shipped); FALSE: skipped (X08-2.patch)

VARIABLES calls,            \* the models of the calls so far, the last one being built / analysed (input)
          phase,            \* "input" | "scan" | "eval" | "mine" | "done"
          ni,               \* loop index of the running loop
          nodeMap, servicesNode,                              \* locals of Analysis
          serviceNodeMap, returnTypeMap, longParameterList,   \* package-level registers of service.go
          result,           \* ServiceSummary of the running call: [lifecycle, returns : map, related : Seq]
          results           \* the summaries returned by the finished calls

vars == <<calls, phase, ni, nodeMap, servicesNode, serviceNodeMap, returnTypeMap, longParameterList, result, results>>

C(p, n) == [pkg |-> p, name |-> n]
ClassPool ==
  CASE ClassPoolName = "services" -> {C("p", "AService"), C("q", "BService"), C("p", "Order")}
    [] ClassPoolName = "one"      -> {C("p", "AService")}
    [] ClassPoolName = "names"    -> {C("p", "AService"), C("p", "serviceB"), C("p", "MyServices"), C("p", "Servic"), C("q", "Order"), C("", "SERVICE")}
    [] ClassPoolName = "pair"     -> {C("p", "AService"), C("p", "Order")}
    [] ClassPoolName = "returns"  -> {C("p", "AService"), C("q", "Order"), C("r", "Order"), C("p", "String")}
ParamPool ==
  CASE ParamPoolName = "none" -> {<<>>}
    [] ParamPoolName = "long" -> {<<>>, <<"a", "b", "c">>, <<"a", "b", "c", "d">>, <<"b", "a", "d", "c">>, <<"a", "b", "c", "e">>, <<"a", "b", "c", "d", "e">>}
    [] ParamPoolName = "pair2" -> {<<>>, <<"a", "b", "c", "d">>}
    [] ParamPoolName = "pair" -> {<<>>, <<"a", "b", "c", "d">>, <<"a", "b", "c", "e">>}

Empty == <<>>                                   \* the empty map (a function with empty domain)
Get(map, k) == IF k \in DOMAIN map THEN map[k] ELSE <<>>
Put(map, k, v) == [x \in DOMAIN map \cup {k} |-> IF x = k THEN v ELSE map[x]]
EmptySummary == [lifecycle |-> Empty, returns |-> Empty, related |-> <<>>]

Cur == calls[Len(calls)]

Init ==
  /\ calls = <<<<>>>> /\ phase = "input" /\ ni = 1
  /\ nodeMap = Empty /\ servicesNode = <<>>
  /\ serviceNodeMap = Empty /\ returnTypeMap = Empty /\ longParameterList = <<>>
  /\ result = EmptySummary /\ results = <<>>

-----------------------------------------------------------------------------
(* SplitCamelcase (splitter_util.go), loop by loop *)

\* `for _, r := range src`: runs of one class
RECURSIVE Runs(_, _, _, _)
Runs(s, i, lastClass, runes) ==
  IF i > Len(s) THEN runes
  ELSE LET c == Ch(s, i)
           class == Kind(c)
       IN  IF class = lastClass
           THEN Runs(s, i + 1, class, [runes EXCEPT ![Len(runes)] = Append(@, c)])
           ELSE Runs(s, i + 1, class, Append(runes, <<c>>))

\* `for i := 0; i < len(runes)-1; i++`: "PDFL","oader" -> "PDF","Loader"
RECURSIVE Fix(_, _)
Fix(runes, i) ==
  IF i > Len(runes) - 1 THEN runes
  ELSE IF Kind(runes[i][1]) = "upper" /\ Kind(runes[i + 1][1]) = "lower"
       THEN Fix([runes EXCEPT ![i + 1] = <<runes[i][Len(runes[i])]>> \o @, ![i] = SubSeq(@, 1, Len(@) - 1)], i + 1)
       ELSE Fix(runes, i + 1)

RECURSIVE JoinAll(_)
JoinAll(ss) == IF ss = <<>> THEN "" ELSE Head(ss) \o JoinAll(Tail(ss))

\* `for _, s := range runes { if len(s) > 0 { entries = append(entries, string(s)) } }`
SplitCamelcase(src) ==
  LET fixed == Fix(Runs(src, 1, "none", <<>>), 1)
      kept == SelectSeq(fixed, LAMBDA r : r # <<>>)
  IN  [i \in DOMAIN kept |-> JoinAll(kept[i])]

-----------------------------------------------------------------------------
(* buildLifecycle *)

IsTechStopWords(w) == w \in StopWords

RECURSIVE LifeLoop(_, _, _, _)
LifeLoop(methodNameArray, i, nameMap, hadLifecycle) ==
  IF i > Len(methodNameArray) THEN hadLifecycle
  ELSE IF Len(methodNameArray[i]) < 1 THEN LifeLoop(methodNameArray, i + 1, nameMap, hadLifecycle)
  ELSE LET firstWord == methodNameArray[i][1]
           nm == IF ~IsTechStopWords(firstWord)
                 THEN Put(nameMap, firstWord, Append(Get(nameMap, firstWord), JoinAll(methodNameArray[i])))
                 ELSE nameMap
           had == IF Len(Get(nm, firstWord)) > 1 THEN Put(hadLifecycle, firstWord, Get(nm, firstWord)) ELSE hadLifecycle
       IN  LifeLoop(methodNameArray, i + 1, nm, had)

MethodNameArray(node) ==
  LET fs == SelectSeq(node.methods, LAMBDA f : CtorIsMethod \/ ~f.ctor)
  IN  [i \in DOMAIN fs |-> SplitCamelcase(fs[i].name)]

RECURSIVE SeqOf(_)
SeqOf(S) == IF S = {} THEN <<>> ELSE LET x == CHOOSE y \in S : TRUE IN <<x>> \o SeqOf(S \ {x})

\* the proposed store: append the entries of this service to what is there
RECURSIVE MergeInto(_, _, _)
MergeInto(map, add, keys) ==
  IF keys = {} THEN map
  ELSE LET k == CHOOSE x \in keys : TRUE IN MergeInto(Put(map, k, Get(map, k) \o add[k]), add, keys \ {k})

-----------------------------------------------------------------------------
(* choosing the input *)

NewClass ==
  /\ phase = "input" /\ Len(Cur) < MaxClasses
  /\ \E c \in ClassPool :
       calls' = [calls EXCEPT ![Len(calls)] = Append(@, [pkg |-> c.pkg, name |-> c.name, methods |-> <<>>])]
  /\ UNCHANGED <<phase, ni, nodeMap, servicesNode, serviceNodeMap, returnTypeMap, longParameterList, result, results>>

NewMethod ==
  /\ phase = "input" /\ Cur # <<>> /\ Len(Cur[Len(Cur)].methods) < MaxMethods
  /\ \E n \in NamePool, r \in RetPool, p \in ParamPool, k \in (IF Ctors THEN BOOLEAN ELSE {FALSE}) :
       LET f == IF k THEN [name |-> Cur[Len(Cur)].name, ret |-> "", ctor |-> TRUE, params |-> p]
                     ELSE [name |-> n, ret |-> r, ctor |-> FALSE, params |-> p]
       IN  calls' = [calls EXCEPT ![Len(calls)][Len(Cur)].methods = Append(@, f)]
  /\ UNCHANGED <<phase, ni, nodeMap, servicesNode, serviceNodeMap, returnTypeMap, longParameterList, result, results>>

-----------------------------------------------------------------------------
(* Analysis *)

StartAnalysis ==
  /\ phase = "input"
  /\ phase' = "scan" /\ ni' = 1 /\ nodeMap' = Empty /\ servicesNode' = <<>> /\ result' = EmptySummary
  /\ UNCHANGED <<calls, serviceNodeMap, returnTypeMap, longParameterList, results>>

ScanNode ==
  /\ phase = "scan" /\ ni <= Len(Cur)
  /\ LET node == Cur[ni]
     IN  /\ nodeMap' = Put(nodeMap, node.name, node)
         /\ servicesNode' = IF IsService(node) THEN Append(servicesNode, node) ELSE servicesNode
  /\ ni' = ni + 1
  /\ UNCHANGED <<calls, phase, serviceNodeMap, returnTypeMap, longParameterList, result, results>>

EvaluateListStart ==
  /\ phase = "scan" /\ ni > Len(Cur)
  /\ serviceNodeMap' = nodeMap /\ longParameterList' = <<>> /\ returnTypeMap' = Empty
  /\ phase' = "eval" /\ ni' = 1
  /\ UNCHANGED <<calls, nodeMap, servicesNode, result, results>>

\* the three blocks of Service.Evaluate for one service
RECURSIVE RetLoop(_, _, _, _)
RetLoop(node, i, nmap, rmap) ==
  IF i > Len(node.methods) THEN rmap
  ELSE LET f == node.methods[i]
       IN  IF f.ret \notin Builtin /\ f.ret \in DOMAIN nmap
           THEN RetLoop(node, i + 1, nmap, Put(rmap, f.ret, Append(Get(rmap, f.ret), node.pkg \o "." \o node.name \o "." \o f.name)))
           ELSE RetLoop(node, i + 1, nmap, rmap)

EvaluateNode ==
  /\ phase = "eval" /\ ni <= Len(servicesNode)
  /\ LET node == servicesNode[ni]
         lifecycleMap == LifeLoop(MethodNameArray(node), 1, Empty, Empty)
     IN  /\ result' = IF DOMAIN lifecycleMap = {} THEN result
                      ELSE IF LifecycleStore = "overwrite" THEN [result EXCEPT !.lifecycle = lifecycleMap]
                      ELSE [result EXCEPT !.lifecycle = MergeInto(@, lifecycleMap, DOMAIN lifecycleMap)]
         /\ longParameterList' = longParameterList \o SelectSeq(node.methods, LAMBDA f : Len(f.params) >= 4)
         /\ returnTypeMap' = RetLoop(node, 1, serviceNodeMap, returnTypeMap)
  /\ ni' = ni + 1
  /\ UNCHANGED <<calls, phase, nodeMap, servicesNode, serviceNodeMap, results>>

EndEvaluate ==
  /\ phase = "eval" /\ ni > Len(servicesNode)
  /\ result' = [result EXCEPT !.returns = returnTypeMap]
  /\ phase' = "mine"
  /\ UNCHANGED <<calls, ni, nodeMap, servicesNode, serviceNodeMap, returnTypeMap, longParameterList, results>>

\* findRelatedMethodParameters: dataset = the parameter names of every listed function; the miner (given) returns the
\* frequent groups at support 0.8; `if len(items) >= 4 { model.ServiceSummary.RelatedMethod = items }` keeps the last one
Mine ==
  /\ phase = "mine"
  /\ LET dataset == [i \in DOMAIN longParameterList |-> longParameterList[i].params]
         names == UNION {Range(dataset[i]) : i \in DOMAIN dataset}
         count(S) == Cardinality({i \in DOMAIN dataset : S \subseteq Range(dataset[i])})
         groups == {S \in SUBSET names : Cardinality(S) >= 4 /\ count(S) * 5 >= Len(dataset) * 4}
     IN  IF groups = {}
         THEN result' = result
         ELSE \E S \in groups : result' = [result EXCEPT !.related = SeqOf(S)]
  /\ results' = Append(results, result')
  /\ phase' = "done"
  /\ UNCHANGED <<calls, ni, nodeMap, servicesNode, serviceNodeMap, returnTypeMap, longParameterList>>

\* a second Analysis in the same process: the package-level registers keep what the first call left in them
NextCall ==
  /\ phase = "done" /\ Len(calls) < MaxCalls
  /\ calls' = Append(calls, <<>>)
  /\ phase' = "input"
  /\ UNCHANGED <<ni, nodeMap, servicesNode, serviceNodeMap, returnTypeMap, longParameterList, result, results>>

Finished == phase = "done"
Done == Finished /\ UNCHANGED vars

Next == NewClass \/ NewMethod \/ StartAnalysis \/ ScanNode \/ EvaluateListStart \/ EvaluateNode \/ EndEvaluate \/ Mine \/ NextCall \/ Done
Spec == Init /\ [][Next]_vars

-----------------------------------------------------------------------------
(* Properties: what the Machine returns satisfies the Reference *)

Project(r) ==
  [panic |-> FALSE, wellformed |-> TRUE,
   lifecycle |-> SeqOf({[word |-> w, methods |-> r.lifecycle[w]] : w \in DOMAIN r.lifecycle}),
   returns |-> SeqOf({[type |-> t, methods |-> r.returns[t]] : t \in DOMAIN r.returns}),
   related |-> r.related]

Observed == Project(results[Len(results)])

X08_Lifecycle   == Finished => DiffLifecycle(Cur, Observed, Len(calls)) = {}
X08_ReturnTypes == Finished => DiffReturns(Cur, Observed, Len(calls)) = {}
X08_Related     == Finished => DiffRelated(Cur, Observed, Len(calls)) = {}
\* the two formulations of "first camel-case word" (the convention in the Reference, the loops above) agree on the pool
X08_SplitAgrees == (phase = "input" /\ calls = <<<<>>>>) =>
  \A n \in NamePool \cup {c.name : c \in ClassPool} : n # "" => (SplitCamelcase(n)[1] = FirstWord(n) /\ JoinAll(SplitCamelcase(n)) = n)
\* register sanity: while the services of a call are evaluated the package-level registers hold nothing of an earlier call
X08_Registers == phase \in {"eval", "mine"} =>
  /\ \A i \in DOMAIN longParameterList : \E c \in Range(servicesNode) : longParameterList[i] \in Range(c.methods)
  /\ DOMAIN returnTypeMap \subseteq ClassNames(Cur)
  /\ DOMAIN serviceNodeMap = ClassNames(Cur)

Emit == Finished => PrintT(<<"CASE", ToJson([input |-> [via |-> "model", calls |-> calls]])>>)

\* development aid (tlc -continue): print the violating histories
ShowDiff == Finished => LET d == DiffSum(Cur, Observed, Len(calls))
                        IN  IF d = {} THEN TRUE ELSE PrintT(<<"NOTE", ToJson([calls |-> calls, diff |-> d])>>)
=============================================================================
