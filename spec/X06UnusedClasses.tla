-------------------------- MODULE X06UnusedClasses --------------------------
(* Implementation-shaped Machine of unusedclasses.Refactoring                            *)
(* (pkg/application/refactor/unusedclasses/unused_classes_app.go):                        *)
(*   for _, node := range parsedDeps {          NewNode    sourceClasses[full(node)]      *)
(*       (node.FunctionCalls is not read)       NewFieldCall                              *)
(*     for _, method := range node.Functions {  NewMethod                                 *)
(*       for _, methodCall := range method.FunctionCalls {                                *)
(*                                              NewCall    targetClasses[full(callee)]    *)
(*       (node.InnerStructures is not read)     NewInnerCall                              *)
(*   for _, clz := range sourceClasses {        ExcludeStep  (Go map order: ANY order)    *)
(*     if targetClasses[clz] != clz { excludePackage = append(excludePackage, clz) }      *)
(*   sort.Strings(excludePackage)               Sort                                      *)
(* `strings.Contains(x, analysisPackage)` with the never-assigned analysisPackage = ""    *)
(* is always true and is not modelled.                                                    *)
(* The model is chosen incrementally (one entry / call per action; inside an entry:       *)
(* class-level calls, then functions, then inner calls), so TLC enumerates every model    *)
(* within the bounds; the map iteration of the second loop is a nondeterministic choice,  *)
(* so every iteration order is explored.  At Finish the output is judged by the same      *)
(* Reference (X06UnusedClassesRef) that judges the real code and the model is emitted as  *)
(* a replay case.  Three switches name where the code as it is deviates from the          *)
(* statement (proposed_fixes/X06.md); the registered cfgs use the repaired setting, the   *)
(* `_asis` cfg the unrepaired one.                                                        *)
EXTENDS X06UnusedClassesRef, Json

CONSTANTS MaxDeps, MaxField, MaxFns, MaxCalls, MaxInner,
          Pkgs,          \* package names of entries
          ClassNames,    \* class names of entries
          CalleePkgs, CalleeNames,   \* callees (may lie outside the model)
          SelfCalls,     \* "use":  a call of a class to itself marks it as used (the code)
                         \* "skip": it is not a use (proposed_fixes/X06-1.patch)
          ClassLevel,    \* "ignored": node.FunctionCalls is not read (the code);  "read" (X06-2.patch)
          InnerCalls     \* "ignored": node.InnerStructures is not read (the code);  "read" (X06-2.patch)

VARIABLES deps,            \* the model chosen so far (input)
          phase,           \* "deps" | "exclude" | "sort" | "done"
          part,            \* inside the current entry: "field" | "fns" | "inner"
          sourceClasses,   \* map used as a set of keys
          targetClasses,   \* map used as a set of keys
          todo,            \* keys of sourceClasses the second loop has not visited yet
          excludePackage,  \* the slice
          out

vars == <<deps, phase, part, sourceClasses, targetClasses, todo, excludePackage, out>>

\* byte codes of the pool strings (TLC cannot order strings): ASCII
AtomCodes == ("" :> <<>>) @@ ("x" :> <<120>>) @@ ("y" :> <<121>>) @@ ("Z" :> <<90>>) @@ ("x.y" :> <<120, 46, 121>>)
             @@ ("Out" :> <<79, 117, 116>>)
CodesOfFull(p, n) == AtomCodes[p] \o <<46>> \o AtomCodes[n]
\* the codes of a full name that is in sourceClasses: found through the entries of the model
CodesOf(full) == LET i == CHOOSE j \in DOMAIN deps : FullOf(deps[j]) = full IN CodesOfFull(deps[i].pkg, deps[i].name)

Init ==
  /\ deps = <<>> /\ phase = "deps" /\ part = "field"
  /\ sourceClasses = {} /\ targetClasses = {} /\ todo = {}
  /\ excludePackage = <<>> /\ out = <<>>

Last == deps[Len(deps)]
Ref(p, n) == [pkg |-> p, name |-> n]

\* the effect of one recorded call of the current entry on the target table
Mark(c, read) ==
  IF read /\ ~(SelfCalls = "skip" /\ FullOf(c) = FullOf(Last))
  THEN targetClasses \cup {FullOf(c)} ELSE targetClasses

NewNode ==
  /\ phase = "deps" /\ Len(deps) < MaxDeps
  /\ \E p \in Pkgs, n \in ClassNames :
       /\ deps' = Append(deps, [pkg |-> p, name |-> n, field |-> <<>>, fns |-> <<>>, inner |-> <<>>])
       /\ sourceClasses' = sourceClasses \cup {Full(p, n)}
  /\ part' = "field"
  /\ UNCHANGED <<phase, targetClasses, todo, excludePackage, out>>

NewFieldCall ==      \* node.FunctionCalls: present in the model, not read by the code
  /\ phase = "deps" /\ deps # <<>> /\ part = "field" /\ Len(Last.field) < MaxField
  /\ \E p \in CalleePkgs, n \in CalleeNames :
       /\ deps' = [deps EXCEPT ![Len(deps)].field = Append(@, Ref(p, n))]
       /\ targetClasses' = Mark(Ref(p, n), ClassLevel = "read")
  /\ UNCHANGED <<phase, part, sourceClasses, todo, excludePackage, out>>

NewMethod ==
  /\ phase = "deps" /\ deps # <<>> /\ part \in {"field", "fns"} /\ Len(Last.fns) < MaxFns
  /\ deps' = [deps EXCEPT ![Len(deps)].fns = Append(@, <<>>)]
  /\ part' = "fns"
  /\ UNCHANGED <<phase, sourceClasses, targetClasses, todo, excludePackage, out>>

NewCall ==
  /\ phase = "deps" /\ deps # <<>> /\ part = "fns" /\ Len(Last.fns[Len(Last.fns)]) < MaxCalls
  /\ \E p \in CalleePkgs, n \in CalleeNames :
       /\ deps' = [deps EXCEPT ![Len(deps)].fns[Len(Last.fns)] = Append(@, Ref(p, n))]
       /\ targetClasses' = Mark(Ref(p, n), TRUE)
  /\ UNCHANGED <<phase, part, sourceClasses, todo, excludePackage, out>>

NewInnerCall ==      \* node.InnerStructures[..]: present in the model, not read by the code
  /\ phase = "deps" /\ deps # <<>> /\ Len(Last.inner) < MaxInner
  /\ \E p \in CalleePkgs, n \in CalleeNames :
       /\ deps' = [deps EXCEPT ![Len(deps)].inner = Append(@, Ref(p, n))]
       /\ targetClasses' = Mark(Ref(p, n), InnerCalls = "read")
  /\ part' = "inner"
  /\ UNCHANGED <<phase, sourceClasses, todo, excludePackage, out>>

EndDeps ==
  /\ phase = "deps"
  /\ phase' = "exclude" /\ todo' = sourceClasses
  /\ UNCHANGED <<deps, part, sourceClasses, targetClasses, excludePackage, out>>

ExcludeStep ==       \* one iteration of `for _, clz := range sourceClasses`, in any order
  /\ phase = "exclude" /\ todo # {}
  /\ \E clz \in todo :
       /\ todo' = todo \ {clz}
       /\ excludePackage' = IF clz \notin targetClasses THEN Append(excludePackage, clz) ELSE excludePackage
  /\ UNCHANGED <<deps, phase, part, sourceClasses, targetClasses, out>>

EndExclude ==
  /\ phase = "exclude" /\ todo = {}
  /\ phase' = "sort"
  /\ UNCHANGED <<deps, part, sourceClasses, targetClasses, todo, excludePackage, out>>

\* sort.Strings: the ascending arrangement (one exists and, the keys being distinct, only one)
IsSortedSeq(s) == \A i \in 1..(Len(s) - 1) : LexLeq(CodesOf(s[i]), CodesOf(s[i + 1]))
Perms(s) == {p \in [1..Len(s) -> Range(s)] : Range(p) = Range(s)}

Sort ==
  /\ phase = "sort"
  /\ \E p \in Perms(excludePackage) :
       /\ IsSortedSeq(p)
       /\ excludePackage' = p                      \* in place
       /\ out' = [i \in 1..Len(p) |-> [s |-> p[i], codes |-> CodesOf(p[i])]]
  /\ phase' = "done"
  /\ UNCHANGED <<deps, part, sourceClasses, targetClasses, todo>>

Finished == phase = "done"
Done == Finished /\ UNCHANGED vars

Next == NewNode \/ NewFieldCall \/ NewMethod \/ NewCall \/ NewInnerCall \/ EndDeps \/ ExcludeStep \/ EndExclude \/ Sort \/ Done
Spec == Init /\ [][Next]_vars

-----------------------------------------------------------------------------
(* Properties: the Machine's output satisfies the Reference *)

Model == [i \in DOMAIN deps |-> [pkg |-> deps[i].pkg, name |-> deps[i].name, field |-> deps[i].field, fns |-> deps[i].fns,
                                  inner |-> deps[i].inner, innerNames |-> <<>>]]

X06_Exact  == Finished => DiffExact(Model, out) = {}
X06_Once   == Finished => DiffOnce(Model, out) = {}
X06_Sorted == Finished => DiffSorted(out) = {}
\* register sanity while the first loop runs: the source table holds the classes seen so far, and the target table
\* never holds a class nobody (not even itself) calls
X06_Tables == phase = "deps" =>
  /\ sourceClasses = Classes(Model)
  /\ targetClasses \subseteq UNION {Targets(Model[i]) : i \in DOMAIN Model}
\* the second loop never lists a class twice whatever the map order
X06_ExcludeOnce == Cardinality(Range(excludePackage)) = Len(excludePackage)

Emit == Finished => PrintT(<<"CASE", ToJson([input |-> [via |-> "model", deps |-> deps]])>>)

\* development aid (tlc -continue): print the violating models
ShowDiff == Finished => LET d == Diff([model |-> Model, observed |-> [panic |-> FALSE, result |-> out, again |-> out]])
                        IN  IF d = {} THEN TRUE ELSE PrintT(<<"NOTE", ToJson([deps |-> deps, diff |-> d])>>)
=============================================================================
