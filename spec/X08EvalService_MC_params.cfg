\* long parameter lists: one class with <= 3 functions or constructors over six parameter lists
SPECIFICATION Spec
CONSTANTS
  MaxCalls = 1
  MaxClasses = 1
  MaxMethods = 3
  ClassPoolName = "services"
  NamePool = {"a"}
  RetPool = {"void"}
  ParamPoolName = "long"
  Ctors = TRUE
  LifecycleStore = "merge"
  CtorIsMethod = FALSE
INVARIANTS X08_Lifecycle X08_ReturnTypes X08_Related X08_SplitAgrees X08_Registers Emit
