\* quick, merge / DOT-centred: the 4 types a.A, ab.A, b.B, bb.B (package names whose concatenations collide), each class
\* with at most one field of a candidate or library type, x {none, H, P, HP} x 3 include filters; relation loop of
\* MergeHeaderFile in every order (3-type subsets: Arch_MC_merge.cfg, thorough)
SPECIFICATION Spec
CONSTANTS
  Universe <- U_collide
  MinTypes = 4
  MaxTypes = 4
  Kinds = {"field"}
  MaxRel = 1
  Externals <- X_std
  Modes = {"none", "H", "P", "HP"}
  Filters <- F_some
  FixKey = TRUE
  FixLeaving = TRUE
  FixRegister = TRUE
INVARIANTS C13_NodesExact C13_EdgesExact C13_QuotientExact C13_DotEdgesBetweenDisplayed C13_EachTypeOnce C13_Reference
           C13_MergeNoSelfLoop C13_MergeBetweenNodes Emit
