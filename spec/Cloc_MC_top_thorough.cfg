\* thorough, top-file: <= 2 sub-directories out of {.idea, east, tea} x 2 languages x 4 file options
\* (up to 3 files with ties); --top-size 0/1/2/5; DIR as "tree", "w/tree" and "."
SPECIFICATION Spec
CONSTANTS
  Shape = "top2"
  Roots = {"tree", "w/tree", "."}
  ExtFilters = {"none"}
  Tops = {0, 1, 2, 5}
  Stride = 2
INVARIANTS C16_RowPerDirectory C16_CellsExact C16_SummaryIsSum C16_AgreesWithBase C16_RunTargetsCurrentDir
           C16_TopSortedTruncated C16_TopJsonExact Emit
