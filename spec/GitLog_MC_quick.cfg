SPECIFICATION Spec
CONSTANTS
  MaxCommits = 3
  MaxOps = 1
VIEW View
INVARIANTS C14_BlockExact C14_NoChangeMigrates C15_TableMatchesHistory Emit
