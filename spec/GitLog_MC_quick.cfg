SPECIFICATION Spec
CONSTANTS
  MaxCommits = 3
  MaxOps = 1
  ModeDigits = "any"
VIEW View
INVARIANTS C14_BlockExact C14_NoChangeMigrates C15_TableMatchesHistory Emit
