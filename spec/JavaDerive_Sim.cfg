SPECIFICATION Spec
CONSTANTS MaxDepth = 14
          MaxTokens = 120
          NLex = 16
INVARIANTS C09_SentenceOfGrammar C09_Bounded Emit
