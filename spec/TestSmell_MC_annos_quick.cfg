\* quick, annotations x layouts: every annotation shape (alone / together in either order / none /
\* foreign) x every path kind (flat and Maven, test and production) x 3 helper shapes, bodies of <= 1 statement
SPECIFICATION Spec
CONSTANTS
  MaxBody = 1
  Alphabet = {"print", "assertEq", "helper", "plain", "new", "noise"}
  AnnoKinds = {"T", "Targ", "I", "TI", "IT", "none", "Before"}
  HelperKinds = {"none", "empty", "assert"}
  PathKinds = {"flatTest", "flatTests", "flatProd", "flatSub", "mavenTest", "mavenOther", "mavenMain", "mavenRootOnly"}
  Repaired = TRUE
INVARIANTS C11_FindingsExact C11_OnlyTestFiles C11_FileAttribution C11_LoopBounds Emit
