\* thorough: <= 2 functions over 240 shapes (more parameter / call / line values, one-line constructors)
SPECIFICATION Spec
CONSTANTS
  MaxClasses = 1
  MaxFuncs = 2
  Types = {"Class", "Interface"}
  Shapes <- ShapesWide
  LongestInit = "constructors"
  MergeKeeps = "first"
INVARIANTS X02_SuggestionsExact X02_OnePerClass X02_CounterRegister Emit
