------------------------------ MODULE GoDerive ------------------------------
(* C20, last sentence: "Neither front-end crashes on a file its parser accepts."                *)
(* The Go front-end (pkg/infrastructure/ast/ast_go) parses with the standard library's          *)
(* go/parser, so "accepts" = go/parser.ParseFile returns no error. The repository also ships a  *)
(* Go grammar, languages/g4/GoParser.g4 + GoLexer.g4; here it is the GENERATOR of candidate     *)
(* files: GoGrammar.tla is generated from it (bin/g4tla.py; the rule `eos` is kept as the token  *)
(* class EOS, which the renderer writes as ';', a line break, or nothing before a closing       *)
(* bracket), and this module is the leftmost-derivation machine of that grammar - the same      *)
(* construction as JavaDerive (C09) and PyDerive:                                               *)
(*   Expand : leftmost non-terminal := an alternative that fits the token allowance of its      *)
(*            subtree, the rest of the allowance shared among the alternative's non-terminals   *)
(*            (MinAlt when nothing fits or deeper than MaxDepth)                                *)
(*   Shift  : leading terminal -> sentence; a token class gets one of NLex lexemes              *)
(*   Finish : the layout is drawn.                                                              *)
(* Contexts spend the budget on what the front-end's visitor looks at: type declarations,       *)
(* struct and interface types, methods with receivers (before and after their type), function   *)
(* declarations with and without body, func literals, statements, call statements, expressions. *)
(* The ANTLR grammar and go/parser do not define the same language; sentences go/parser         *)
(* rejects are outside the quantifier (counted in the evidence, never judged).                  *)
EXTENDS GoGrammar, Naturals, Sequences, FiniteSets, Json

CONSTANTS MaxDepth,      \* non-terminals introduced deeper than this are closed by MinAlt
          Budgets,       \* token budgets of a derivation (one is chosen in Init and shared by the holes of the context)
          NLex           \* lexemes per token class

VARIABLES ctx, stack, out, layout, done
vars == <<ctx, stack, out, layout, done>>

N(v) == [k |-> "N", v |-> v, d |-> 0, b |-> 0]    \* b: the token allowance of the subtree, set in Init for the holes of a context
T(v) == [k |-> "T", v |-> v, d |-> 0, b |-> 1]
K(v) == [k |-> "K", v |-> v, d |-> 0, b |-> 1]
Id   == K("IDENTIFIER")
EOS  == K("EOS")

Pre == <<T("package"), Id, EOS>>
Fn(body) == <<T("func"), Id, T("("), T(")"), T("{")>> \o body \o <<T("}"), EOS>>

Contexts ==
  [ file     |-> <<N("sourceFile")>>,
    imports  |-> Pre \o <<N("importDecl"), EOS, N("importDecl"), EOS, N("importDecl"), EOS>>,
    decls    |-> Pre \o <<N("declaration"), EOS, N("functionDecl"), EOS, N("methodDecl"), EOS, N("declaration"), EOS>>,
    types    |-> Pre \o <<N("typeDecl"), EOS, N("typeDecl"), EOS>>,
    struct   |-> Pre \o <<T("type"), Id, N("structType"), EOS, T("type"), Id, N("structType"), EOS>>,
    iface    |-> Pre \o <<T("type"), Id, N("interfaceType"), EOS, T("type"), Id, N("interfaceType"), EOS>>,
    method   |-> Pre \o <<N("methodDecl"), EOS, T("type"), Id, T("struct"), T("{"), T("}"), EOS, N("methodDecl"), EOS>>,
    recv     |-> Pre \o <<T("func"), T("("), Id, N("type_"), T(")"), Id, N("signature"), N("block"), EOS,
                          T("func"), T("("), Id, T("*"), N("typeName"), T(")"), Id, N("signature"), N("block"), EOS,
                          T("func"), T("("), N("type_"), T(")"), Id, T("("), T(")"), T("{"), T("}"), EOS,
                          T("func"), N("receiver"), Id, N("signature"), EOS>>,
    fields   |-> Pre \o <<T("type"), Id, T("struct"), T("{"), Id, N("type_"), EOS, Id, T(","), Id, N("type_"), EOS,
                          N("anonymousField"), EOS, N("fieldDecl"), EOS, T("}"), EOS>>,
    ret      |-> Pre \o <<T("func"), Id, T("("), Id, N("type_"), T(")"), N("result"), T("{"),
                          Id, T(":="), N("expression"), EOS,
                          T("return"), Id, T("."), Id, N("arguments"), EOS, T("}"), EOS>>,
    func     |-> Pre \o <<N("functionDecl"), EOS, N("functionDecl"), EOS>>,
    sig      |-> Pre \o <<T("func"), Id, N("parameters"), N("result"), T("{"), T("}"), EOS,
                          T("type"), Id, T("func"), N("signature"), EOS,
                          T("func"), Id, N("signature"), N("block"), EOS>>,
    funclit  |-> Pre \o Fn(<<Id, T(":="), N("functionLit"), EOS,
                             Id, T("."), Id, T("("), N("functionLit"), T(")"), EOS,
                             Id, T("("), Id, T(","), N("functionLit"), T(")"), EOS,
                             T("defer"), N("functionLit"), T("("), T(")"), EOS,
                             T("go"), N("functionLit"), T("("), T(")"), EOS>>),
    stmt     |-> Pre \o Fn(<<N("statement"), EOS, N("statement"), EOS, N("statement"), EOS>>),
    block    |-> Pre \o <<T("func"), Id, T("("), Id, Id, T(")"), Id, N("block"), EOS>>,
    simple   |-> Pre \o Fn(<<N("simpleStmt"), EOS, N("simpleStmt"), EOS, T("return"), N("expressionList"), EOS>>),
    expr     |-> Pre \o <<T("var"), Id, T("="), N("expression"), EOS>> \o
                 Fn(<<Id, T("="), N("expression"), EOS, T("return"), N("expression"), EOS>>),
    call     |-> Pre \o Fn(<<N("primaryExpr"), N("arguments"), EOS,
                             T("defer"), N("primaryExpr"), N("arguments"), EOS,
                             Id, T("."), Id, N("arguments"), EOS,
                             Id, T(":="), Id, T("."), Id, N("arguments"), EOS>>),
    control  |-> Pre \o Fn(<<N("ifStmt"), EOS, N("forStmt"), EOS, N("switchStmt"), EOS>>),
    vars     |-> Pre \o <<N("varDecl"), EOS, N("constDecl"), EOS, N("varDecl"), EOS>>,
    complit  |-> Pre \o <<T("var"), Id, T("="), N("compositeLit"), EOS>> \o Fn(<<T("return"), N("compositeLit"), EOS>>)
  ]

\* layout: line break after every "{" and "," (as gofmt would), what follows the last token of the file
Layouts == [open : {"same", "break"}, final : {"nl", "none"}, comment : {"none", "line", "block"}]
PlainLayout == [open |-> "same", final |-> "nl", comment |-> "none"]

\* the holes of a context share the budget of the derivation equally
Holes(c) == Cardinality({i \in DOMAIN c : c[i].k = "N"})
Init == /\ ctx \in DOMAIN Contexts
        /\ \E budget \in Budgets :
             stack = [i \in DOMAIN Contexts[ctx] |->
                        IF Contexts[ctx][i].k = "N" THEN [Contexts[ctx][i] EXCEPT !.b = budget \div Holes(Contexts[ctx])]
                        ELSE Contexts[ctx][i]]
        /\ out = <<>> /\ layout = PlainLayout /\ done = FALSE

\* the smallest number of tokens a symbol / an alternative derives (MinSize comes with the grammar)
Size(sym) == IF sym.k = "N" THEN MinSize[sym.v] ELSE 1
RECURSIVE SeqSize(_, _)
SeqSize(a, i) == IF i > Len(a) THEN 0 ELSE Size(a[i]) + SeqSize(a, i + 1)

\* Expand: the leftmost non-terminal is replaced by an alternative that FITS its allowance (its smallest sentence is not
\* longer); what the alternative does not need is shared equally among its non-terminals, so the budget is spread over
\* the whole tree instead of being spent on the leftmost construct. Nothing fits, or too deep: the alternative of
\* minimal height (MinAlt) closes the symbol, so every derivation ends.
Expand ==
  /\ ~done /\ stack # <<>> /\ Head(stack).k = "N"
  /\ LET s == Head(stack)
         alts == Alts[s.v]
         fits == {a \in 1..Len(alts) : SeqSize(alts[a], 1) <= s.b}
     IN  \E a \in (IF s.d >= MaxDepth \/ fits = {} THEN {MinAlt[s.v]} ELSE fits) :
           LET alt == alts[a]
               n == Cardinality({i \in DOMAIN alt : alt[i].k = "N"})
               need == SeqSize(alt, 1)
               share == IF n = 0 \/ s.b <= need THEN 0 ELSE (s.b - need) \div n
           IN  stack' = [i \in 1..Len(alt) |->
                           [k |-> alt[i].k, v |-> alt[i].v, d |-> s.d + 1,
                            b |-> Size(alt[i]) + (IF alt[i].k = "N" THEN share ELSE 0)]] \o Tail(stack)
  /\ UNCHANGED <<ctx, out, layout, done>>

Shift ==
  /\ ~done /\ stack # <<>> /\ Head(stack).k # "N"
  /\ LET s == Head(stack)
     IN  IF s.k = "T" THEN out' = Append(out, s.v)
         ELSE \E i \in 0..(NLex - 1) : out' = Append(out, "@" \o s.v \o "#" \o ToString(i))
  /\ stack' = Tail(stack)
  /\ UNCHANGED <<ctx, layout, done>>

Finish ==
  /\ ~done /\ stack = <<>>
  /\ done' = TRUE
  \* one successor only (TLC evaluates Emit on every successor it generates): the layout is drawn, not branched on
  /\ layout' = IF RandomElement(0..1) = 0 THEN PlainLayout ELSE RandomElement(Layouts)
  /\ UNCHANGED <<ctx, stack, out>>

\* no step after Finish: with deadlock checking off a behaviour ends there
Next == Expand \/ Shift \/ Finish
Spec == Init /\ [][Next]_vars

-----------------------------------------------------------------------------
Count(tok) == Cardinality({i \in DOMAIN out : out[i] = tok})

C20_SentenceOfGrammar ==
  /\ \A i \in DOMAIN stack : stack[i].k \in {"N", "T", "K"} /\ (stack[i].k = "N" => stack[i].v \in DOMAIN Alts)
  /\ \A i \in DOMAIN stack : stack[i].k = "N" => stack[i].b >= 0
  /\ (done => stack = <<>>)
\* what "fits" relies on: below the holes of the context every symbol's allowance covers its smallest sentence
C20_AllowanceCoversMinimum == \A i \in DOMAIN stack : stack[i].d > 0 => stack[i].b >= Size(stack[i])
\* the budget bounds every derivation (slack: a symbol closed by MinAlt may need more than its allowance)
MaxBudget == CHOOSE m \in Budgets : \A x \in Budgets : x <= m
C20_Bounded == Len(out) <= MaxBudget + Len(Contexts[ctx]) + 400
\* brackets of a sentence of this grammar pair up (the renderer breaks lines after "{" relying on it)
C20_BracketsPair ==
  /\ Count("}") <= Count("{") /\ Count(")") <= Count("(") /\ Count("]") <= Count("[")
  /\ (done => Count("}") = Count("{") /\ Count(")") = Count("(") /\ Count("]") = Count("["))

Emit == done => PrintT(<<"CASE", ToJson([lang |-> "go", ctx |-> ctx, tokens |-> out, layout |-> layout])>>)
=============================================================================
