\* quick: every model of 3 methods with call lists of length <= 2 over the 3 declared methods
\* (2197 graphs incl. self loops, parallel edges, cycles) x 3 roots x {call twice, rcall twice}
SPECIFICATION Spec
CONSTANTS
  MaxCalls = 2
  WithExt = FALSE
  WithDI = FALSE
  Kinds = {"call", "rcall"}
INVARIANTS C03_EdgeSound C03_BudgetBound C04_EdgeSound C03_C04_Reference C07_SameTwice Emit
