------------------------------- MODULE Budget -------------------------------
(* The expansion budget of call.BuildCallChain, abstracted from the graph:            *)
(* whatever the model, every expansion either is refused by the guard                  *)
(* `loopCount > maxLoopCount` or increments the process-global counter, and the        *)
(* recursion depth never exceeds the number of expansions made. The inductive          *)
(* invariant IndInv is discharged by Apalache for ALL graphs (no bound on the model):  *)
(*   apalache-mc check --init=Init   --inv=IndInv --length=0 Budget.tla                *)
(*   apalache-mc check --init=IndInv --inv=IndInv --length=1 Budget.tla                *)
(* It complements the bounded TLC runs of CallGraph.tla (C03_BudgetBound,              *)
(* C03_C04_Terminates): at most 7 expansions are ever made per request, each iterates  *)
(* over a finite call list, hence generation terminates for every model.               *)
EXTENDS Integers

Budget == 7

VARIABLES
  \* @type: Int;
  loopCount,
  \* @type: Int;
  depth

\* CallGraph.Analysis / AnalysisByFiles reset the counter before the root expansion
Init == loopCount = 0 /\ depth = 0

\* BuildCallChain entered with budget left: loopCount++, one more frame
Enter == /\ loopCount <= Budget - 1
         /\ loopCount' = loopCount + 1
         /\ depth' = depth + 1

\* BuildCallChain entered with the budget spent: returns "\n" at once
Refused == loopCount > Budget - 1 /\ UNCHANGED <<loopCount, depth>>

\* a frame returns to its caller
Return == depth > 0 /\ depth' = depth - 1 /\ UNCHANGED loopCount

Next == Enter \/ Refused \/ Return

IndInv == /\ loopCount \in 0..Budget
          /\ depth \in 0..Budget
          /\ depth <= loopCount
=============================================================================
