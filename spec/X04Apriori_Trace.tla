-------------------------- MODULE X04Apriori_Trace --------------------------
(* Trace validation: every line of trace.ndjson is one case handed to the real miner      *)
(* (apriori.NewApriori(..).Calculate(..)), to evaluate's related-parameter search or to     *)
(* git's related-file search, in a fresh process; Diff (X04AprioriRef) is the oracle.        *)
(* Never blocks: each discrepancy is printed and the rest of the trace is still checked.    *)
EXTENDS X04AprioriRef, Json
VARIABLE l
Trace == ndJsonDeserialize("trace.ndjson")
Init == l = 1
Step == /\ l <= Len(Trace)
        /\ LET d == Diff(Trace[l])
           IN  IF d = {} THEN TRUE ELSE PrintT(<<"DIFF", l, ToJson(d)>>)
        /\ l' = l + 1
Spec == Init /\ [][Step]_l
Accepted == TLCGet("stats").diameter - 1 = Len(Trace)
=============================================================================
