\* the code as it is (no repair): the Machine violates X01_MovedExactly (package line of a moved file that declares a
\* nested class or is an enum; "\r" of rewritten lines; with Pool = "multi": the copy made before a later
\* move).  Not part of a check; `tlc -continue` + INVARIANT ShowDiff lists every violating history.
SPECIFICATION Spec
CONSTANTS
  Pool = "layout-quick"
  NameRule = "last-decl"
  CopyNode = FALSE
  KeepCR = FALSE
INVARIANTS X01_MovedExactly X01_NoCrash X01_OtherProjectsUntouched X01_TablesNotMixed
