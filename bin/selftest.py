"""bin/check --selftest : demonstrates that the specification is bound to the implementation.

For several suites: record a small trace from the real code, validate it (no discrepancy expected), then
corrupt ONE recorded field and validate again: TLC must report a discrepancy. Also checks that a trace with
a dropped line is not silently accepted as the full trace (line accounting) and that the model-level
counterexample configuration of MapOrder is indeed a counterexample."""
import copy
import importlib
import json
import os
import sys

import vcore as V


def _first(recs, pred):
    for i, r in enumerate(recs):
        if pred(r):
            return i
    return None


def corrupt_callgraph(recs):
    i = _first(recs, lambda r: any(o["edges"] for o in r["observed"]))
    r = recs[i]
    for o in r["observed"]:
        if o["edges"]:
            o["edges"].append(["p.Bogus.src", "p.Bogus.dst"])
            break
    return i


def corrupt_springapi(recs):
    i = _first(recs, lambda r: any(o["apis"] for o in r["observed"]))
    for o in recs[i]["observed"]:
        if o["apis"]:
            o["apis"][0]["uri"] += "/corrupted"
            break
    return i


def corrupt_javamodel(recs):
    i = _first(recs, lambda r: any(t["fns"] for o in r["observed"] for t in o["full"]["types"]))
    for o in recs[i]["observed"]:
        for t in o["full"]["types"]:
            if t["fns"]:
                t["fns"][0]["name"] += "Corrupted"
                return i
    return i


def corrupt_gitlog(recs):
    i = _first(recs, lambda r: r["mode"] == "real" and any(c["changes"] for c in r["observed"]["commits"]))
    for c in recs[i]["observed"]["commits"]:
        if c["changes"]:
            c["changes"][0]["added"] += 1
            break
    return i


def corrupt_rename(recs):
    i = _first(recs, lambda r: r["texts"] and not r["panic"])
    t = recs[i]["texts"][0]
    t["after"][0] = t["after"][0] + " "
    return i


def corrupt_unusedimport(recs):
    i = _first(recs, lambda r: r["texts"] and not r["panic"] and len(r["texts"][0]["after1"]) > 2)
    t = recs[i]["texts"][0]
    del t["after1"][-2]
    return i


def corrupt_todo(recs):
    i = _first(recs, lambda r: r["observed"]["todos"])
    recs[i]["observed"]["todos"][0]["line"] += 1
    return i


def corrupt_arch(recs):
    i = _first(recs, lambda r: r["observed"]["hasGraph"] and len(r["observed"]["graph"]["nodes"]) > 1)
    recs[i]["observed"]["graph"]["nodes"].pop()
    return i


def corrupt_fronts(recs):
    i = _first(recs, lambda r: any(f["types"] or f["funcs"] for f in r["observed"]["files"]))
    for f in recs[i]["observed"]["files"]:
        if f["types"]:
            f["types"][0]["name"] += "Corrupted"
            break
        if f["funcs"]:
            f["funcs"][0]["name"] += "Corrupted"
            break
    return i


def corrupt_deps(recs):
    i = _first(recs, lambda r: any(e["deps"] for e in r["observed"]["extract"]))
    for e in recs[i]["observed"]["extract"]:
        if e["deps"]:
            e["deps"][0]["artifact"] += "-corrupted"
            break
    return i


def corrupt_badsmell(recs):
    i = _first(recs, lambda r: any(x["kind"] == "longParameterList" for x in r["observed"]["api"]))
    for x in recs[i]["observed"]["api"]:
        if x["kind"] == "longParameterList":
            x["size"] += 1
            break
    return i


def corrupt_testsmell(recs):
    i = _first(recs, lambda r: r["observed"]["findings"])
    recs[i]["observed"]["findings"].append(dict(recs[i]["observed"]["findings"][0]))   # one finding reported twice
    return i


def corrupt_cloc(recs):
    i = _first(recs, lambda r: any(row["cells"] and row["summary"] > 0 for row in r["observed"]["bydir"]["csv"]["rows"]))
    for row in recs[i]["observed"]["bydir"]["csv"]["rows"]:
        if row["cells"] and row["summary"] > 0:
            row["summary"] += 1
            break
    return i


def corrupt_stats(recs):
    i = _first(recs, lambda r: r["observed"]["eval"]["done"] and r["observed"]["eval"]["methods"] > 0)
    recs[i]["observed"]["eval"]["methods"] += 1
    return i


def corrupt_frontsderive(recs):
    i = _first(recs, lambda r: r.get("accepts") and not r["observed"]["panic"])
    recs[i]["observed"]["panic"] = True
    return i


def corrupt_javashapes(recs):
    i = _first(recs, lambda r: r.get("valid") and r["observed"] and not r["observed"][0]["panic"])
    recs[i]["observed"][0]["panic"] = True
    return i


def corrupt_unusedclasses(recs):
    # one class dropped from a returned list
    i = _first(recs, lambda r: not r["observed"]["panic"] and r["observed"]["result"])
    recs[i]["observed"]["result"].pop()
    recs[i]["observed"]["again"] = list(recs[i]["observed"]["result"])
    return i


def corrupt_cocafile(recs):
    # one returned file dropped from one run (both requests)
    i = _first(recs, lambda r: any(run["files"] and not run["panic"] for run in r["observed"]["runs"]))
    for run in recs[i]["observed"]["runs"]:
        if run["files"] and not run["panic"]:
            run["files"].pop()
            run["again"] = list(run["files"])
            break
    return i


def corrupt_session(recs):
    i = _first(recs, lambda r: any(o["files"] for o in r["observed"]["full"]))
    for o in recs[i]["observed"]["full"]:
        if o["files"]:
            o["files"][-1]["hash"] = "0000000000000000"
            break
    return i


def corrupt_evalservice(recs):
    builtin = {"String", "int", "float", "void", "char", "double"}
    i = _first(recs, lambda r: any(e["type"] not in builtin for x in r["runs"] for e in x["observed"]["returns"]))
    for x in recs[i]["runs"]:
        for e in x["observed"]["returns"]:
            if e["type"] not in builtin:
                e["methods"][0] += "Corrupted"          # one listed function under a project return type
                x["later"] = copy.deepcopy(x["observed"])
                return i
    return i


def corrupt_todogit(recs):
    i = _first(recs, lambda r: r["observed"]["details"])
    recs[i]["observed"]["details"][0]["line"] += 1      # the reported line of one todo
    return i


SUITES = [("session", corrupt_session), ("unusedclasses", corrupt_unusedclasses), ("cocafile", corrupt_cocafile), ("evalservice", corrupt_evalservice), ("todogit", corrupt_todogit), ("frontsderive", corrupt_frontsderive), ("javashapes", corrupt_javashapes), ("todo", corrupt_todo), ("arch", corrupt_arch), ("fronts", corrupt_fronts), ("deps", corrupt_deps),
          ("badsmell", corrupt_badsmell), ("testsmell", corrupt_testsmell), ("cloc", corrupt_cloc), ("stats", corrupt_stats),
          ("callgraph", corrupt_callgraph), ("springapi", corrupt_springapi), ("javamodel", corrupt_javamodel),
          ("gitlog", corrupt_gitlog), ("rename", corrupt_rename), ("unusedimport", corrupt_unusedimport)]


def main():
    ok = True
    only = [x for x in os.environ.get("VERIF_SELFTEST_ONLY", "").split(",") if x]     # e.g. VERIF_SELFTEST_ONLY=cocafile,unusedclasses
    for sname, corrupt in SUITES:
        if only and sname not in only:
            continue
        S = importlib.import_module("suites." + sname)
        plan = S.plan("", "quick", 1)
        b = V.build_harness(plan["harness"])
        env = {}
        if plan.get("needs_coca"):
            env["VERIF_COCA"] = V.build_coca()
        wd = V.workdir("selftest-" + sname)
        env["VERIF_SCRATCH"] = wd
        V.run_harness(b, ["gen", "-seed", "7", "-n", "40"], stdout_path=wd + "/c.ndjson", env=env)
        V.run_harness(b, ["run"], stdin_path=wd + "/c.ndjson", stdout_path=wd + "/t.ndjson", env=env, cwd=wd)
        tm, tc = plan["trace"]
        d0, n, unj = V.validate_trace(tm, tc, wd + "/t.ndjson", "st", shards=1)
        recs = V.read_ndjson(wd + "/t.ndjson")
        recs2 = copy.deepcopy(recs)
        try:
            idx = corrupt(recs2)
        except TypeError:
            idx = None
        if idx is None:
            print("%-13s no record to corrupt in the sample" % sname)
            ok = False
            continue
        V.write_ndjson(wd + "/t2.ndjson", recs2)
        d1, n1, unj1 = V.validate_trace(tm, tc, wd + "/t2.ndjson", "st", shards=1)
        # discrepancies of the clean trace may only be listed known findings (by their spec-computed tags)
        known = {f["tag"] for f in V.load_known().get("findings", [])}
        unknown0 = [(i, it) for i, items in d0 for it in items if not (set(it.get("tags") or []) & known)]
        items0 = {i: {json.dumps(it, sort_keys=True) for it in items} for i, items in d0}
        hit = any(i == idx and {json.dumps(it, sort_keys=True) for it in items} - items0.get(i, set()) for i, items in d1)
        print("%-13s clean trace: %d records, %d discrepancies outside the known findings; one field of record %d corrupted -> %s"
              % (sname, n, len(unknown0), idx, "REJECTED by TLC" if hit else "NOT detected"))
        ok = ok and not unknown0 and hit
        # line accounting: a trace file with one line removed is validated as a shorter trace, never as the full one
        V.write_ndjson(wd + "/t3.ndjson", recs[1:])
        d2, n2, _ = V.validate_trace(tm, tc, wd + "/t3.ndjson", "st", shards=1)
        ok = ok and n2 == n - 1
    # the model-level counterexample of MapOrder must be one
    d = V.workdir("selftest-maporder")
    r = V.run_tlc("MapOrder_MC", "MapOrder_fold_chain_EXPECTED_VIOLATION.cfg", d, workers=2, timeout=120)
    print("MapOrder rename chain folded in map order: %s" % ("violates C08_FoldOrderIndependent as expected" if r.violation else "NO violation (unexpected)"))
    ok = ok and bool(r.violation)
    print("selftest", "ok" if ok else "FAILED")
    return 0 if ok else 1
