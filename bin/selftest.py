"""bin/check --selftest : demonstrates that the specification is bound to the implementation.

For several suites: record a small trace from the real code, validate it (no discrepancy expected), then
corrupt ONE recorded field and validate again: TLC must report a discrepancy. Also checks that a trace with
a dropped line is not silently accepted as the full trace (line accounting) and that the model-level
counterexample configuration of MapOrder is indeed a counterexample."""
import copy
import importlib
import json
import os
import sys

import vcore as V


def _first(recs, pred):
    for i, r in enumerate(recs):
        if pred(r):
            return i
    return None


def corrupt_callgraph(recs):
    i = _first(recs, lambda r: any(o["edges"] for o in r["observed"]))
    r = recs[i]
    for o in r["observed"]:
        if o["edges"]:
            o["edges"].append(["p.Bogus.src", "p.Bogus.dst"])
            break
    return i


def corrupt_springapi(recs):
    i = _first(recs, lambda r: any(o["apis"] for o in r["observed"]))
    for o in recs[i]["observed"]:
        if o["apis"]:
            o["apis"][0]["uri"] += "/corrupted"
            break
    return i


def corrupt_javamodel(recs):
    i = _first(recs, lambda r: any(t["fns"] for o in r["observed"] for t in o["full"]["types"]))
    for o in recs[i]["observed"]:
        for t in o["full"]["types"]:
            if t["fns"]:
                t["fns"][0]["name"] += "Corrupted"
                return i
    return i


def corrupt_gitlog(recs):
    i = _first(recs, lambda r: r["mode"] == "real" and any(c["changes"] for c in r["observed"]["commits"]))
    for c in recs[i]["observed"]["commits"]:
        if c["changes"]:
            c["changes"][0]["added"] += 1
            break
    return i


def corrupt_rename(recs):
    i = _first(recs, lambda r: r["texts"] and not r["panic"])
    t = recs[i]["texts"][0]
    t["after"][0] = t["after"][0] + " "
    return i


def corrupt_unusedimport(recs):
    i = _first(recs, lambda r: r["texts"] and not r["panic"] and len(r["texts"][0]["after1"]) > 2)
    t = recs[i]["texts"][0]
    del t["after1"][-2]
    return i


SUITES = [("callgraph", corrupt_callgraph), ("springapi", corrupt_springapi), ("javamodel", corrupt_javamodel),
          ("gitlog", corrupt_gitlog), ("rename", corrupt_rename), ("unusedimport", corrupt_unusedimport)]


def main():
    ok = True
    for sname, corrupt in SUITES:
        S = importlib.import_module("suites." + sname)
        plan = S.plan("", "quick", 1)
        b = V.build_harness(plan["harness"])
        env = {}
        if plan.get("needs_coca"):
            env["VERIF_COCA"] = V.build_coca()
        wd = V.workdir("selftest-" + sname)
        env["VERIF_SCRATCH"] = wd
        V.run_harness(b, ["gen", "-seed", "7", "-n", "30"], stdout_path=wd + "/c.ndjson", env=env)
        V.run_harness(b, ["run"], stdin_path=wd + "/c.ndjson", stdout_path=wd + "/t.ndjson", env=env, cwd=wd)
        tm, tc = plan["trace"]
        d0, n, unj = V.validate_trace(tm, tc, wd + "/t.ndjson", "st", shards=1)
        recs = V.read_ndjson(wd + "/t.ndjson")
        recs2 = copy.deepcopy(recs)
        idx = corrupt(recs2)
        V.write_ndjson(wd + "/t2.ndjson", recs2)
        d1, n1, unj1 = V.validate_trace(tm, tc, wd + "/t2.ndjson", "st", shards=1)
        hit = any(i == idx for i, _ in d1)
        print("%-13s clean trace: %d records, %d discrepancies; one field of record %d corrupted -> %s"
              % (sname, n, len(d0), idx, "REJECTED by TLC" if hit else "NOT detected"))
        ok = ok and not d0 and hit
        # line accounting: a trace file with one line removed is validated as a shorter trace, never as the full one
        V.write_ndjson(wd + "/t3.ndjson", recs[1:])
        d2, n2, _ = V.validate_trace(tm, tc, wd + "/t3.ndjson", "st", shards=1)
        ok = ok and n2 == n - 1
    # the model-level counterexample of MapOrder must be one
    d = V.workdir("selftest-maporder")
    r = V.run_tlc("MapOrder_MC", "MapOrder_fold_chain_EXPECTED_VIOLATION.cfg", d, workers=2, timeout=120)
    print("MapOrder rename chain folded in map order: %s" % ("violates C08_FoldOrderIndependent as expected" if r.violation else "NO violation (unexpected)"))
    ok = ok and bool(r.violation)
    print("selftest", "ok" if ok else "FAILED")
    return 0 if ok else 1
