"""Core of the coca TLA+ verification framework.

Orchestrates:  build harness from /repo's working tree  ->  TLC model check (X_MC)
->  TLC behaviour generation (X_Gen)  ->  harness replay on the real code (trace.ndjson)
->  TLC trace validation (X_Trace, the only oracle)  ->  known-finding matching
->  evidence/<id>.json and the VIOLATION / KNOWN-FINDING lines.

Exit codes: 0 = property held on everything explored, 1 = violation (from real-code
behaviour judged by the TLA+ Reference), 2 = no verdict (build/tool failure, timeout).
"""
import atexit
import hashlib
import json
import os
import random
import re
import shutil
import signal
import subprocess
import sys
import tempfile
import time

VERIF = os.path.dirname(os.path.dirname(os.path.abspath(__file__)))
REPO = os.environ.get("VERIF_REPO", "/repo")
SPEC = os.path.join(VERIF, "spec")
HARNESS = os.path.join(VERIF, "harness")
BUILD = os.path.join(VERIF, ".build")
WORK = os.path.join(VERIF, ".work")
# evidence/ and replays/ describe /repo; a run against another tree (VERIF_REPO=<scratch worktree with a seeded change>)
# writes its evidence and replay files under .work/ so that it never overwrites what is claimed about /repo
_ALT = None if os.path.abspath(REPO) == "/repo" else os.path.join(VERIF, ".work", "alt-" + os.path.basename(os.path.abspath(REPO)))
EVID = os.path.join(_ALT, "evidence") if _ALT else os.path.join(VERIF, "evidence")
REPLAYS = os.path.join(_ALT, "replays") if _ALT else os.path.join(VERIF, "replays")
NCPU = os.cpu_count() or 4

GOENV = dict(os.environ, GOFLAGS="-mod=mod", GOPROXY="off", GOSUMDB="off",
             GOTOOLCHAIN="local", CGO_ENABLED="0")


class NoVerdict(Exception):
    """Anything that prevents a verdict: exit 2, never a violation."""


def log(*a):
    print(*a, file=sys.stderr, flush=True)


# --------------------------------------------------------------------------- scratch

_workdirs = []


def workdir(tag):
    os.makedirs(WORK, exist_ok=True)
    d = tempfile.mkdtemp(prefix=tag + "-", dir=WORK)
    _workdirs.append(d)
    return d


def _cleanup():
    if os.environ.get("VERIF_KEEP"):
        return
    for d in _workdirs:
        shutil.rmtree(d, ignore_errors=True)


atexit.register(_cleanup)


def _sigterm(signum, frame):
    _cleanup()
    os._exit(2)


signal.signal(signal.SIGTERM, _sigterm)

# --------------------------------------------------------------------------- builds

_built = {}


def _modargs():
    """The harness module replaces github.com/modernizing/coca => /repo. When VERIF_REPO points
    elsewhere (scratch worktrees used to try seeded changes without touching /repo) an alternative
    go.mod with that path is generated and passed with -modfile."""
    _sync_gosum()
    if os.path.abspath(REPO) == "/repo":
        return [], ""
    tag = hashlib.sha1(os.path.abspath(REPO).encode()).hexdigest()[:8]
    d = os.path.join(BUILD, "mod-" + tag)
    os.makedirs(d, exist_ok=True)
    gm = open(os.path.join(HARNESS, "go.mod")).read().replace("=> /repo", "=> " + os.path.abspath(REPO))
    open(os.path.join(d, "go.mod"), "w").write(gm)
    shutil.copy(os.path.join(HARNESS, "go.sum"), os.path.join(d, "go.sum"))
    return ["-modfile=" + os.path.join(d, "go.mod")], "-" + tag


def _sync_gosum():
    src = os.path.join(REPO, "go.sum")
    dst = os.path.join(HARNESS, "go.sum")
    try:
        a = open(src).read()
        b = open(dst).read() if os.path.exists(dst) else ""
        if not set(a.splitlines()) <= set(b.splitlines()):
            lines = sorted(set(a.splitlines()) | set(b.splitlines()))
            open(dst, "w").write("\n".join(lines) + "\n")
    except OSError as e:
        raise NoVerdict("go.sum sync failed: %s" % e)


def _gobuild(key, pkg, what):
    if key in _built:
        return _built[key]
    os.makedirs(BUILD, exist_ok=True)
    margs, suffix = _modargs()
    out = os.path.join(BUILD, key + suffix)
    t0 = time.time()
    p = subprocess.run(["go", "build"] + margs + ["-tags", "verif", "-o", out, pkg],
                       cwd=HARNESS, env=GOENV, capture_output=True, text=True)
    if p.returncode != 0:
        raise NoVerdict("%s does not build against the current tree (%s):\n%s" % (what, REPO, p.stderr[-4000:]))
    log("[build] %s %.1fs" % (what, time.time() - t0))
    _built[key] = out
    return out


def build_harness(name):
    """go build -tags verif ./cmd/<name> against /repo's current working tree."""
    return _gobuild(name, "./cmd/" + name, "harness " + name)


def build_coca():
    """The coca CLI itself, from /repo's working tree (built through the harness module so /repo/go.mod is untouched)."""
    return _gobuild("coca", "github.com/modernizing/coca", "coca")


# --------------------------------------------------------------------------- TLC

TLC_JAR = "/opt/veriftools/tla/tla2tools.jar:/opt/veriftools/tla/CommunityModules-deps.jar"


def _unescape_tla(s):
    out = []
    i = 0
    while i < len(s):
        c = s[i]
        if c == "\\" and i + 1 < len(s):
            n = s[i + 1]
            out.append({"n": "\n", "t": "\t", "r": "\r", "f": "\f"}.get(n, n))
            i += 2
        else:
            out.append(c)
            i += 1
    return "".join(out)


_TAGLINE = re.compile(r'^<<"(CASE|DIFF|STAT|NOTE)", (.*)>>$')


def parse_tagged(stdout):
    """Lines printed by PrintT(<<"CASE"|"DIFF"|..., ..., "<json>">>). Yields (tag, [prefix fields], obj), one line at a
    time (a thorough model check prints more than a million CASE lines: nothing here keeps them all)."""
    import io
    for line in io.StringIO(stdout):
        line = line.rstrip("\r\n")
        m = _TAGLINE.match(line)
        if not m:
            continue
        body = m.group(2)
        k = body.find('"')
        # last field is always a TLA+ string holding JSON
        q = body.rfind('"')
        # find the start of the last string: scan for the first unescaped quote that begins it
        # fields before it are simple (numbers / short strings without quotes inside)
        start = None
        i = 0
        depth_str = False
        fields = []
        cur = []
        while i < len(body):
            c = body[i]
            if depth_str:
                if c == "\\":
                    cur.append(body[i:i + 2])
                    i += 2
                    continue
                if c == '"':
                    depth_str = False
                    fields.append(("s", "".join(cur)))
                    cur = []
                else:
                    cur.append(c)
            else:
                if c == '"':
                    depth_str = True
                    cur = []
                elif c == ",":
                    pass
                elif not c.isspace():
                    j = i
                    while j < len(body) and body[j] not in ", ":
                        j += 1
                    fields.append(("n", body[i:j]))
                    i = j
                    continue
            i += 1
        vals = []
        for kind, v in fields:
            if kind == "s":
                vals.append(_unescape_tla(v))
            else:
                try:
                    vals.append(int(v))
                except ValueError:
                    vals.append(v)
        if not vals:
            continue
        try:
            obj = json.loads(vals[-1]) if isinstance(vals[-1], str) else vals[-1]
        except ValueError:
            obj = vals[-1]
        yield (m.group(1), vals[:-1], obj)


class TLCResult:
    def __init__(self):
        self.stdout = ""
        self.rc = None
        self.generated = 0
        self.distinct = 0
        self.depth = 0
        self.violation = None   # name of violated invariant/property
        self.error = None       # other error text
        self.coverage = {}      # action -> (distinct, total)
        self.wall = 0.0
        self.timed_out = False
        self.postcondition_failed = False


def run_tlc(module, cfg, cwd, *, workers=None, timeout=600, simulate=None, depth=None,
            seed=None, coverage=False, extra_files=(), deadlock=True, heap=None, dfs=False,
            continue_=False):
    """Run TLC on spec/<module>.tla with spec/<cfg> inside a scratch dir `cwd` (spec files are copied there)."""
    for f in os.listdir(SPEC):
        if f.endswith(".tla") or f.endswith(".cfg"):
            shutil.copy(os.path.join(SPEC, f), os.path.join(cwd, f))
    for f in extra_files:
        if os.path.dirname(os.path.abspath(f)) != os.path.abspath(cwd):
            shutil.copy(f, cwd)
    meta = tempfile.mkdtemp(prefix="meta-", dir=cwd)
    jopts = ["-XX:+UseParallelGC", "-Xss512m", "-Dfile.encoding=UTF-8", "-Djava.io.tmpdir=" + meta]
    if heap:
        jopts.append("-Xmx" + heap)
    if dfs:
        jopts.append("-Dtlc2.tool.queue.IStateQueue=StateDeque")
    cmd = ["java"] + jopts + ["-cp", TLC_JAR, "tlc2.TLC", "-metadir", meta,
                               "-workers", str(workers or "auto"), "-config", cfg]
    if not deadlock:
        cmd.append("-deadlock")
    if coverage:
        cmd += ["-coverage", "1"]
    if continue_:
        cmd.append("-continue")
    if simulate is not None:
        cmd += ["-simulate", "num=%d" % simulate]
        if depth:
            cmd += ["-depth", str(depth)]
    if seed is not None:
        cmd += ["-seed", str(seed)]
    cmd.append(module + ".tla")
    env = dict(os.environ)
    env.pop("JAVA_TOOL_OPTIONS", None)
    r = TLCResult()
    t0 = time.time()
    try:
        p = subprocess.run(cmd, cwd=cwd, env=env, capture_output=True, text=True, timeout=timeout,
                           encoding="utf-8", errors="replace")
        r.stdout = p.stdout + p.stderr
        r.rc = p.returncode
    except subprocess.TimeoutExpired as e:
        r.timed_out = True
        r.stdout = (e.stdout or b"").decode("utf-8", "replace") if isinstance(e.stdout, bytes) else (e.stdout or "")
        subprocess.run(["pkill", "-f", meta], capture_output=True)
    r.wall = time.time() - t0
    shutil.rmtree(meta, ignore_errors=True)
    out = r.stdout
    m = re.findall(r"(\d+) states generated, (\d+) distinct states found", out)
    if m:
        r.generated, r.distinct = int(m[-1][0]), int(m[-1][1])
    else:
        # simulation mode: "The number of states generated: N" / "Progress: N states checked, T traces generated"
        ms = re.findall(r"The number of states generated: (\d+)", out)
        if ms:
            r.generated = r.distinct = int(ms[-1])
    m = re.search(r"depth of the complete state graph search is (\d+)", out)
    if m:
        r.depth = int(m.group(1))
    m = re.search(r"Error: Invariant (\S+) is violated", out)
    if m:
        r.violation = m.group(1)
    m = re.search(r"Error: Action property (\S+) is violated", out)
    if m:
        r.violation = m.group(1)
    if "Temporal properties were violated" in out:
        r.violation = r.violation or "temporal"
    if "Deadlock reached" in out:
        r.violation = r.violation or "deadlock"
    if re.search(r"The postcondition .* violated|Error: Evaluating the post-condition|Post-condition .*false", out, re.I):
        r.postcondition_failed = True
    if r.violation is None and not r.timed_out:
        m = re.search(r"^Error: (.*)$", out, re.M)
        if m and not r.postcondition_failed:
            r.error = out[m.start():m.start() + 3000]
        elif r.rc not in (0, None) and not r.postcondition_failed and "No error has been found" not in out and simulate is None:
            r.error = out[-3000:]
    if coverage:
        # <Action line 12, col 1 to line 20, col 30 of module X>: 12:345
        for mm in re.finditer(r"^<(\w+) line \d+, col \d+ to line \d+, col \d+ of module (\w+)>: (\d+):(\d+)", out, re.M):
            r.coverage[mm.group(2) + "." + mm.group(1)] = (int(mm.group(3)), int(mm.group(4)))
    return r


def run_apalache(module, init, inv, length, timeout=300):
    """apalache-mc check --init --inv --length on spec/<module>.tla in a scratch dir. Returns (ok, wall_s, tail)."""
    d = workdir("apalache")
    shutil.copy(os.path.join(SPEC, module + ".tla"), d)
    t0 = time.time()
    try:
        p = subprocess.run(["apalache-mc", "check", "--init=" + init, "--inv=" + inv, "--length=%d" % length, module + ".tla"],
                           cwd=d, capture_output=True, text=True, timeout=timeout)
        out = p.stdout + p.stderr
        ok = p.returncode == 0 and "EXITCODE: OK" in out
    except (subprocess.TimeoutExpired, OSError) as e:
        out, ok = str(e), False
    return ok, round(time.time() - t0, 1), out[-400:]


def sany_all():
    d = workdir("sany")
    for f in os.listdir(SPEC):
        shutil.copy(os.path.join(SPEC, f), d)
    bad = []
    mods = sorted(f for f in os.listdir(d) if f.endswith(".tla"))
    procs = []
    for f in mods:
        procs.append((f, subprocess.Popen(["java", "-Djava.io.tmpdir=" + d, "-cp", TLC_JAR, "tla2sany.SANY", f], cwd=d,
                                          stdout=subprocess.PIPE, stderr=subprocess.STDOUT, text=True)))
    for f, p in procs:
        out, _ = p.communicate()
        if p.returncode != 0 or "*** Errors" in out or "Fatal errors" in out or "Could not find module" in out:
            bad.append((f, out[-1500:]))
    return mods, bad


# --------------------------------------------------------------------------- harness runs

def run_harness(binary, args, *, stdin_path=None, stdout_path=None, timeout=1800, env=None, cwd=None):
    e = dict(os.environ)
    e["VERIF_REPO_DIR"] = os.path.abspath(REPO)
    e.update(env or {})
    fin = open(stdin_path, "rb") if stdin_path else subprocess.DEVNULL
    fout = open(stdout_path, "wb") if stdout_path else subprocess.PIPE
    try:
        p = subprocess.run([binary] + list(args), stdin=fin, stdout=fout, stderr=subprocess.PIPE,
                           timeout=timeout, env=e, cwd=cwd)
    except subprocess.TimeoutExpired:
        raise NoVerdict("harness %s timed out after %ss" % (os.path.basename(binary), timeout))
    finally:
        if stdin_path:
            fin.close()
        if stdout_path:
            fout.close()
    if p.returncode != 0:
        raise NoVerdict("harness %s %s failed rc=%s: %s" % (os.path.basename(binary), " ".join(args), p.returncode,
                                                            p.stderr.decode("utf-8", "replace")[-3000:]))
    return p


def write_ndjson(path, items):
    with open(path, "w", encoding="utf-8") as f:
        for it in items:
            f.write(json.dumps(it, ensure_ascii=False, separators=(",", ":")) + "\n")


def read_ndjson(path):
    res = []
    with open(path, encoding="utf-8") as f:
        for line in f:
            line = line.strip()
            if line:
                res.append(json.loads(line))
    return res


def case_hash(obj):
    return hashlib.sha1(json.dumps(obj, sort_keys=True, separators=(",", ":")).encode()).hexdigest()[:16]


# --------------------------------------------------------------------------- trace validation

def validate_trace(trace_module, cfg, trace_path, tag, *, shards=None, timeout=1800):
    """Run X_Trace over trace.ndjson (sharded over several TLC processes).
    Returns (diffs, n_lines, unjudged): diffs = list of (line index in the whole trace, [items]);
    unjudged = indices of records on which TLC itself failed (e.g. an observation too large to
    evaluate) - validation resumes after such a record, and the caller turns them into 'no verdict'."""
    lines = open(trace_path, encoding="utf-8").read().splitlines()
    lines = [l for l in lines if l.strip()]
    n = len(lines)
    if n == 0:
        return [], 0, []
    if shards is None:
        shards = max(1, min(NCPU, n // 400 + 1))
    per = (n + shards - 1) // shards
    import concurrent.futures as cf
    diffs = []
    unjudged = []

    def one(job):
        off, chunk = job
        out = []
        bad = []
        while chunk:
            if len(chunk[0]) > 8_000_000:          # TLC cannot digest it: unjudged, skip
                bad.append(off)
                off, chunk = off + 1, chunk[1:]
                continue
            d = workdir("%s-trace" % tag)
            with open(os.path.join(d, "trace.ndjson"), "w", encoding="utf-8") as f:
                f.write("\n".join(chunk) + "\n")
            r = run_tlc(trace_module, cfg, d, workers=1, timeout=timeout, deadlock=False)
            shutil.rmtree(d, ignore_errors=True)
            if r.timed_out:
                raise NoVerdict("trace validation timed out (%s)" % trace_module)
            for tagname, pre, obj in parse_tagged(r.stdout):
                if tagname == "DIFF":
                    out.append((off + int(pre[0]) - 1, obj))
            consumed = max(0, r.distinct - 1)
            if (r.error or r.violation) and consumed < len(chunk):
                if consumed == 0 and "ndJsonDeserialize" not in r.stdout and len(chunk) == len(lines):
                    pass
                log("[trace] TLC failed on record %d (%s...): unjudged, resuming after it" % (off + consumed, (r.error or "")[:200].replace("\n", " ")))
                bad.append(off + consumed)
                off, chunk = off + consumed + 1, chunk[consumed + 1:]
                if len(bad) > 20:
                    raise NoVerdict("trace validation fails repeatedly (%s): %s" % (trace_module, (r.error or "")[:2000]))
                continue
            if r.error or r.violation or r.postcondition_failed or r.distinct != len(chunk) + 1:
                raise NoVerdict("trace not fully consumed by %s: %d of %d lines\n%s" % (trace_module, r.distinct - 1, len(chunk), r.stdout[-2000:]))
            break
        return out, bad

    jobs = [(s * per, lines[s * per:(s + 1) * per]) for s in range(shards) if lines[s * per:(s + 1) * per]]
    with cf.ThreadPoolExecutor(max_workers=min(len(jobs), NCPU)) as ex:
        for out, bad in ex.map(one, jobs):
            diffs.extend(out)
            unjudged.extend(bad)
    diffs.sort(key=lambda x: x[0])
    return diffs, n, sorted(unjudged)


# --------------------------------------------------------------------------- known findings

def load_known():
    p = os.path.join(VERIF, "known_findings.json")
    if not os.path.exists(p):
        return {"findings": [], "fixed": []}
    return json.load(open(p))


def classify(prop, diffs, trace_lines):
    """Split diff items of property `prop` into (violations, known) using spec-computed tags.
    An item is known iff one of its tags is listed for that property in known_findings.json."""
    known = load_known()
    ktags = {}
    for f in known.get("findings", []):
        if f["property"] == prop:
            ktags[f["tag"]] = f
    viol, kn = [], {}
    for idx, items in diffs:
        for it in items:
            if it.get("prop") != prop:
                continue
            tags = it.get("tags") or []
            hit = [t for t in tags if t in ktags]
            if hit:
                kn.setdefault(hit[0], []).append((idx, it))
            else:
                viol.append((idx, it))
    return viol, kn, ktags


# --------------------------------------------------------------------------- evidence / verdict

def write_evidence(pid, tier, seed, t0, coverage, assumptions, violations):
    evid = EVID if not pid.startswith("X") else EVID + "_ext"   # extension specifications (DESIGN §10) keep their own directory
    os.makedirs(evid, exist_ok=True)
    ev = {
        "property_id": pid, "tier": tier, "seed": seed, "level": "model_checking",
        "coverage": coverage, "assumptions": assumptions, "wall_s": round(time.time() - t0, 2),
        "violations": violations,
    }
    tmp = os.path.join(evid, pid + ".json.tmp")
    with open(tmp, "w") as f:
        json.dump(ev, f, indent=1, ensure_ascii=False)
    os.replace(tmp, os.path.join(evid, pid + ".json"))


def write_replay(pid, idx, record, items):
    os.makedirs(REPLAYS, exist_ok=True)
    path = os.path.join(REPLAYS, "%s-%s.json" % (pid, case_hash(record.get("input", record))))
    with open(path, "w", encoding="utf-8") as f:
        json.dump({"property": pid, "record": record, "diff": items}, f, ensure_ascii=False, indent=1)
    return path
