"""todo suite (C17): every TODO/FIXME comment is reported once with its line; nothing else is.

Machine spec/Todo.tla (filter loop + CommentLexer mode machine + ParseComment on cells) is model-checked
against the Reference spec/TodoRef.tla; every text TLC explored that lies inside the quantifier is replayed
on the real code (a tree with the text under a selected and under an unselected extension), plus seeded
random trees from the harness generator; spec/Todo_Trace.tla judges the observations.
"""
import random

TRACE = ("Todo_Trace", "Todo_Trace.cfg")
PROPS_ALL = ["C17_NoCrashOnAnyShape", "C17_ReportedExact", "C17_LineCounter"]

# letter-case variants substituted for the Machine's word cell "TODO" (the Reference accepts any case)
WORDS = ["TODO", "TODO", "todo", "Todo", "FIXME", "fixme", "FixMe", "tOdO"]
# (selected extension, unselected twin extension, filter list) used to wrap a TLC text into a tree
WRAPS = [
    (".java", ".txt", [".py", ".java"]),
    (".py", ".pyc", [".py"]),
    (".go", ".golang", [".java", ".go", ".kt"]),
    (".js", ".json", [".java", ".py", ".go", ".ts", ".js", ".kt", ".groovy", ".gradle"]),
    (".ts", ".java.txt", [".ts", ".java"]),
]


def plan(pid, tier, seed):
    quick = tier == "quick"
    if quick:
        mc = [
            # every text of <= 3 cells (boundary shapes: empty comment, marker only, one cell): all replayed
            {"module": "Todo", "cfg": "Todo_Gen_small.cfg", "emit": True, "sample": None, "properties": PROPS_ALL, "timeout": 300},
            # every text of <= 4 cells: ~191 000 states, ~7 s; the texts inside the quantifier are sampled
            {"module": "Todo", "cfg": "Todo_MC_quick.cfg", "emit": True, "sample": 9000, "properties": PROPS_ALL, "timeout": 600},
        ]
    else:
        mc = [
            {"module": "Todo", "cfg": "Todo_Gen_small.cfg", "emit": True, "sample": None, "properties": PROPS_ALL, "timeout": 300},
            {"module": "Todo", "cfg": "Todo_MC_quick.cfg", "emit": True, "sample": None, "properties": PROPS_ALL, "timeout": 600},
            {"module": "Todo", "cfg": "Todo_MC_thorough.cfg", "emit": True, "sample": 120000, "properties": PROPS_ALL,
             "timeout": 3600, "coverage": True},
            {"module": "Todo", "cfg": "Todo_MC_comment.cfg", "emit": True, "sample": 120000, "properties": PROPS_ALL, "timeout": 3600},
            {"module": "Todo", "cfg": "Todo_MC_wide.cfg", "emit": True, "sample": 40000, "properties": PROPS_ALL, "timeout": 3600},
        ]
    gen = []
    return {
        "harness": "todo",
        "needs_coca": True,
        "mc": mc,
        "gen": gen,
        "rand": 1500 if quick else 40000,
        "trace": TRACE,
        "run_timeout": 6000,
    }


def case_from_tlc(obj, h, g):
    """Wrap the one-file input TLC explored into a tree: the text under a selected extension, the same text
    under an unselected one (must not be scanned), deterministic choice of extension set / letter case by hash."""
    inp = obj["input"]
    rnd = random.Random(int(h, 16))
    f0 = inp["files"][0]
    cells = f0["cells"] if isinstance(f0.get("cells"), list) else []
    word = rnd.choice(WORDS)
    cells = [word if c == "TODO" else c for c in cells]
    sel_ext, twin_ext, filters = WRAPS[rnd.randrange(len(WRAPS))]
    if f0["ext"] not in inp["filters"]:
        # the Machine's unselected file: keep it as TLC chose it
        files = [{"name": f0["name"], "ext": f0["ext"], "cells": cells}]
        filters = inp["filters"]
    else:
        files = [{"name": f0["name"], "ext": sel_ext, "cells": cells},
                 {"name": "twin/" + f0["name"], "ext": twin_ext, "cells": cells}]
        if rnd.randrange(3) == 0:
            files.reverse()
    via = ("cli", "cmd")[rnd.randrange(2)] if rnd.randrange(12) == 0 else "api"
    c = {"case": "tlc-" + h, "input": {"files": files, "filters": filters, "via": via}}
    m = obj.get("machine")
    if isinstance(m, dict):
        # the Machine's own report for this text, renamed like the input (drift note only, never a verdict)
        tl = m.get("todos") if isinstance(m.get("todos"), list) else []
        c["machine"] = {"panic": bool(m.get("panic")), "file": f0["name"] + (sel_ext if f0["ext"] in inp["filters"] else f0["ext"]),
                        "todos": [[t["line"], t["assignee"].replace("TODO", word),
                                   [w.replace("TODO", word) for w in (t["words"] if isinstance(t["words"], list) else [])]] for t in tl]}
    return c


def nontrivial(rec):
    # a tree with at least one comment opener or literal quote in a selected file
    fl = rec["input"]["filters"]
    for f in rec["input"]["files"]:
        if f["ext"] in fl and any(c in ("#", "/", "\"", "'", "`") for c in f["cells"]):
            return True
    return False


def extra_evidence(records):
    n_entries = sum(len(r["observed"]["todos"]) for r in records)
    n_cli = sum(1 for r in records if r["input"].get("via") == "cli")
    n_cmd = sum(1 for r in records if r["input"].get("via") == "cmd")
    n_files = sum(len(r["input"]["files"]) for r in records)
    agree = differ = 0
    drift = []
    for r in records:
        m = r.get("machine")
        if not m:
            continue
        o = r["observed"]
        got = [[t["line"], t["assignee"], t["words"]] for t in o["todos"] if t["file"] == m["file"]]
        if bool(o["panic"]) == m["panic"] and (m["panic"] or got == m["todos"]):
            agree += 1
        else:
            differ += 1
            if len(drift) < 5:
                drift.append(r["case"])
    return {"machine_vs_code_same_report": agree, "machine_vs_code_different_report": differ, "DRIFT_examples": drift,
            "files_rendered": n_files, "entries_observed": n_entries, "cases_via_cli": n_cli, "cases_via_root_command_after_an_earlier_request": n_cmd,
            "panics_observed": sum(1 for r in records if r["observed"]["panic"])}
