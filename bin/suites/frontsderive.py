"""C20, last sentence: "Neither front-end crashes on a file its parser accepts" - sentences DERIVED from the grammars the
repository ships (languages/g4/PythonParser.g4, GoParser.g4), each handed to the real front-end if its own parser accepts it.

Machines  spec/PyDerive.tla, spec/GoDerive.tla (leftmost-derivation machines over PyGrammar.tla / GoGrammar.tla, which are
          regenerated here from the grammar files of the tree under test by bin/g4tla.py),
Reference spec/FrontsDeriveRef.tla (Diff = the only oracle), harness cmd/frontsderive (render -> accepts? -> real front-end).
"""
import os
import subprocess
import sys

import vcore as V

TRACE = ("FrontsDerive_Trace", "FrontsDerive_Trace.cfg")

GRAMMARS = {
    "py": ("PyGrammar", "PythonParser.g4", "PythonLexer.g4", []),
    # the rule `eos` (';' | EOF | line terminator ahead | after '}') stays a token class: the renderer writes it
    "go": ("GoGrammar", "GoParser.g4", "GoLexer.g4", ["--as-token", "eos=EOS"]),
}


def grammar_module(lang):
    """spec/<X>Grammar.tla regenerated from the grammar of the tree under test (the committed copy is for readers)"""
    module, pg, lg, opts = GRAMMARS[lang]
    d = V.workdir("frontsgrammar")
    out = os.path.join(d, module + ".tla")
    g = os.path.join(V.REPO, "languages", "g4")
    r = subprocess.run([sys.executable, os.path.join(V.VERIF, "bin", "g4tla.py"), os.path.join(g, pg), os.path.join(g, lg), out, module] + opts,
                       capture_output=True, text=True)
    if r.returncode != 0:
        raise V.NoVerdict("cannot translate the shipped %s grammar to TLA+: %s" % (lang, (r.stderr or r.stdout)[-500:]))
    return out


def plan(pid, tier, seed):
    quick = tier == "quick"
    # `-simulate num=` counts behaviours PER WORKER; every behaviour is one derivation = one source file
    w = 4 if quick else 8
    n = (1600 if quick else 24000) // w
    sfx = "_Sim.cfg" if quick else "_Sim_thorough.cfg"
    gen = [
        {"module": "PyDerive", "cfg": "PyDerive" + sfx, "simulate": n, "depth": 4000, "workers": w,
         "extra_files": [grammar_module("py")], "deadlock": False, "timeout": 3000},
        {"module": "GoDerive", "cfg": "GoDerive" + sfx, "simulate": n, "depth": 4000, "workers": w,
         "extra_files": [grammar_module("go")], "deadlock": False, "timeout": 3000},
    ]
    return {"harness": "frontsderive", "needs_coca": False, "mc": [], "gen": gen, "rand": 8, "trace": TRACE, "run_timeout": 3000}


def case_from_tlc(obj, h, g):
    return {"case": "drv-%s-%s" % (obj["lang"], h), "lang": obj["lang"], "ctx": obj["ctx"], "tokens": obj["tokens"], "layout": obj["layout"]}


def nontrivial(rec):
    # inside the quantifier (the front-end's own parser accepted the file) and more than a stub
    return rec.get("accepts", False) and rec.get("ntokens", 0) >= 8


def extra_evidence(records):
    """how many derived files were inside the quantifier (accepted by the front-end's own parser), per language and context"""
    per = {}
    tot = {}
    for r in records:
        k = "accepted" if r.get("accepts") else "rejected"
        d = per.setdefault(r["lang"], {}).setdefault(r.get("ctx", ""), {"accepted": 0, "rejected": 0})
        d[k] += 1
        t = tot.setdefault(r["lang"], {"accepted": 0, "rejected": 0, "accepted_with_8_tokens_or_more": 0})
        t[k] += 1
        if nontrivial(r):
            t["accepted_with_8_tokens_or_more"] += 1
    return {"derived_files_by_language": tot, "derived_files_by_language_and_context": per,
            "note": "rejected = the front-end's own parser reports a syntax error: outside the quantifier, counted, never judged"}
