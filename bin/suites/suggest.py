"""suggest suite (extension X02): `coca suggest`: per class "too many constructor" (>= 3 constructors), "too many
parameters" (longest constructor >= 5 parameters), "complex constructor" (line/parameter/call rule), merged into one
suggestion per class; nothing for interfaces and classes without functions.

Machine spec/X02Suggest.tla (AnalysisPath / factorySuggest / MergeSuggest with their registers) is model-checked against
the Reference spec/X02SuggestRef.tla; the classes TLC explored are replayed on the real code (in-process, a share as
rendered Java through the real identifier + full passes, a share through the coca binary), plus seeded random wider
models; spec/X02Suggest_Trace.tla judges the observations.
"""
import random

TRACE = ("X02Suggest_Trace", "X02Suggest_Trace.cfg")
PROPS = ["X02_SuggestionsExact", "X02_OnePerClass", "X02_CounterRegister"]

PKGS = ["com.acme.shop", "org.demo", "p"]
NAMES = ["Order", "Cart", "Ledger", "Bee", "Clock"]


def plan(pid, tier, seed):
    quick = tier == "quick"
    if quick:
        mc = [
            # 819 530 states, ~15 s: 113 k classes, sampled
            {"module": "X02Suggest", "cfg": "X02Suggest_MC_quick.cfg", "emit": True, "sample": 3000, "properties": PROPS, "timeout": 900},
            # two classes in one model: 173 566 states, ~5 s
            {"module": "X02Suggest", "cfg": "X02Suggest_MC_pair.cfg", "emit": True, "sample": 1000, "properties": PROPS, "timeout": 600},
        ]
    else:
        mc = [
            {"module": "X02Suggest", "cfg": "X02Suggest_MC_quick.cfg", "emit": True, "sample": 40000, "properties": PROPS, "timeout": 1800},
            {"module": "X02Suggest", "cfg": "X02Suggest_MC_pair.cfg", "emit": True, "sample": None, "properties": PROPS, "timeout": 900},
            {"module": "X02Suggest", "cfg": "X02Suggest_MC_wide.cfg", "emit": True, "sample": 40000, "properties": PROPS, "timeout": 1800},
            {"module": "X02Suggest", "cfg": "X02Suggest_MC_thorough.cfg", "emit": True, "sample": 40000, "properties": PROPS,
             "timeout": 3600, "coverage": True},
        ]
    return {
        "harness": "suggest",
        "needs_coca": True,
        "mc": mc,
        "gen": [],
        "rand": 1500 if quick else 30000,
        "trace": TRACE,
        "run_timeout": 6000,
    }


def case_from_tlc(obj, h, g):
    """The classes TLC explored, with realistic names; by hash: 70 % built as structs, 25 % rendered as Java and analysed
    by the real pipeline (interfaces keep their functions as abstract methods), 5 % through the coca binary."""
    inp = obj["input"]
    rnd = random.Random(int(h, 16))
    classes = inp["classes"] if isinstance(inp.get("classes"), list) else []
    k = rnd.randrange(20)
    via = "java" if k < 5 else ("cli" if k < 6 else "model")
    names = rnd.sample(NAMES, len(classes)) if len(classes) <= len(NAMES) else None
    out = []
    for i, c in enumerate(classes):
        funcs = c["funcs"] if isinstance(c.get("funcs"), list) else []
        if via == "java" and c["type"] == "Interface":
            funcs = [dict(f, ctor=False) for f in funcs]
        out.append({"pkg": rnd.choice(PKGS), "name": names[i] if names else c["name"], "type": c["type"], "funcs": funcs})
    return {"case": "tlc-" + h, "input": {"via": via, "dflag": False, "classes": out}}


def nontrivial(rec):
    # a model with at least one constructor
    return any(f["ctor"] for c in rec.get("model", []) for f in c["funcs"])


def extra_evidence(records):
    return {"models_via_java": sum(1 for r in records if r["input"]["via"] == "java"),
            "models_via_cli": sum(1 for r in records if r["input"]["via"] == "cli"),
            "cli_with_dflag": sum(1 for r in records if r["input"]["via"] == "cli" and r["input"].get("dflag")),
            "suggestions_observed": sum(len(r["observed"]["suggests"]) for r in records),
            "classes_in_models": sum(len(r["model"]) for r in records),
            "panics_observed": sum(1 for r in records if r["observed"]["panic"])}
