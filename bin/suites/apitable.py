"""apitable suite (extension X05): the presentation layer of `coca api` (the count table of -c, api.csv, api.dot,
--sort, --aggregate, -r/--remove) and the -r option of `coca call`.

Machine spec/X05ApiTable.tla (FilterApiByPrefix, the AnalysisByFiles loop, SortAPIs as any non-decreasing arrangement,
the row loop with replacePackage, the replacement over the graph text) is model-checked AS THE CODE IS against the
relational Reference spec/X05ApiTableRef.tla (the flagged output is the plain output transformed as documented; every
discrepancy must carry the tag of a listed defect shape), once on conventional input without any tag, and once with
both repairs.  The inputs TLC explored and seeded random wider ones are written as coca_reporter/deps.json + apis.json
and the coca binary runs twice per case (plain and flagged), one OS process per command; spec/X05ApiTable_Trace.tla
judges.
"""

TRACE = ("X05ApiTable_Trace", "X05ApiTable_Trace.cfg")
REG = ["X05_FilterKeepsOrder", "X05_SortIsAPermutation", "X05_OneRowPerApi"]
ASIS = ["X05_OutputExactOrTagged"] + REG
EXACT = ["X05_OutputExact"] + REG


def _mc(cfg, sample, props=ASIS, emit=True, timeout=900, coverage=False):
    return {"module": "X05ApiTable", "cfg": "X05ApiTable_MC_%s.cfg" % cfg, "emit": emit, "sample": sample, "properties": props,
            "timeout": timeout, "coverage": coverage}


def plan(pid, tier, seed):
    quick = tier == "quick"
    if quick:
        mc = [
            _mc("quick", 300),                          # 15 144 states, 1 456 inputs
            _mc("plain_quick", 300, props=EXACT),       # conventional input: exact without tags
            _mc("comma", 80),
            _mc("call", None, props=["X05_OutputExactOrTagged"]),
            _mc("repaired", None, props=EXACT, emit=False),
        ]
    else:
        mc = [
            _mc("quick", None),
            _mc("plain", 6000, props=EXACT, timeout=3600),
            _mc("comma", None),
            _mc("inside", None),
            _mc("call", None, props=["X05_OutputExactOrTagged"]),
            _mc("thorough", 8000, timeout=3600, coverage=True),
            _mc("repaired", None, props=EXACT, emit=False),
            _mc("repaired_call", None, props=["X05_OutputExact"], emit=False),
        ]
    return {
        "harness": "apitable",
        "needs_coca": True,
        "mc": mc,
        "gen": [],
        "rand": 600 if quick else 12000,
        "trace": TRACE,
        "run_timeout": 9000,
    }


def case_from_tlc(obj, h, g):
    inp = obj["input"]
    for k in ("methods", "apis"):
        if not isinstance(inp.get(k), list):
            inp[k] = []
    for m in inp["methods"]:
        if not isinstance(m.get("calls"), list):
            m["calls"] = []
    if not isinstance(inp["flags"].get("remove"), list):
        inp["flags"]["remove"] = []
    return {"case": "tlc-" + h, "input": inp}


def _api(verb, uri, full):
    pkg, node, name = full.rsplit(".", 2)
    return {"verb": verb, "uri": uri, "pkg": pkg, "node": node, "name": name}


def fixed_cases(pid, tier, seed):
    """The README's own usage: `coca api -r com.phodal.pholedge. -c`, the multi-package form with and without final
    dots, `coca call -c <method> -r com.phodal.pholedge.`; and the sizes of the repository's TestSortApi (3, 5, 2)."""
    def m(full, calls):
        pkg, node, name = full.rsplit(".", 2)
        cs = []
        for c in calls:
            p, n, f = c.rsplit(".", 2)
            cs.append({"pkg": p, "node": n, "name": f})
        return {"pkg": pkg, "node": node, "name": name, "calls": cs}

    B = "com.phodal.pholedge.book."
    methods = [
        m(B + "BookController.createBook", [B + "BookService.createBook"]),
        m(B + "BookController.getBookList", [B + "BookService.getBooksLists", B + "BookService.count", B + "BookRepository.all", "com.zheng.cms.admin.Audit.log"]),
        m(B + "BookController.getBookById", [B + "BookService.getBookById", B + "BookRepository.byId"]),
        m(B + "BookService.createBook", [B + "BookRepository.save"]),
        m(B + "BookService.getBooksLists", []),
        m(B + "BookRepository.save", []),
        m("com.zheng.cms.admin.Audit.log", []),
    ]
    apis = [_api("POST", "/books", B + "BookController.createBook"), _api("GET", "/books/", B + "BookController.getBookList"),
            _api("GET", "/books/{id}", B + "BookController.getBookById")]
    out = []
    for k, (sort, remove, agg) in enumerate([
            (False, ["com.phodal.pholedge."], ""),
            (False, ["com.macro.mall.demo.controller.", "com.zheng.cms.admin.", "com.phodal.pholedge"], ""),
            (True, [], ""),
            (True, ["com.phodal.pholedge.book."], "/books/"),
            (False, [], "/books/{")]):
        out.append({"case": "fixed-readme-api-%d" % k,
                    "input": {"cmd": "api", "methods": methods, "apis": apis,
                              "flags": {"count": True, "sort": sort, "remove": remove, "aggregate": agg, "root": ""}}})
    out.append({"case": "fixed-readme-call",
                "input": {"cmd": "call", "methods": methods, "apis": [],
                          "flags": {"count": False, "sort": False, "remove": ["com.phodal.pholedge."], "aggregate": "",
                                    "root": B + "BookController.createBook"}}})
    return out


def nontrivial(rec):
    i = rec["input"]
    f = i["flags"]
    return bool(i["apis"] or i["cmd"] == "call") and bool(f["sort"] or f["remove"] or f["aggregate"])


def extra_evidence(records):
    def n(f):
        return sum(1 for r in records if f(r))
    return {
        "api_cases": n(lambda r: r["input"]["cmd"] == "api"),
        "call_cases": n(lambda r: r["input"]["cmd"] == "call"),
        "cases_with_sort": n(lambda r: r["input"]["flags"]["sort"]),
        "cases_with_sort_and_equal_sizes": n(lambda r: r["input"]["flags"]["sort"] and
                                               len({x["size"] for x in r["observed"]["with"]["table"]["rows"]}) < len(r["observed"]["with"]["table"]["rows"])),
        "cases_with_remove": n(lambda r: any(r["input"]["flags"]["remove"])),
        "cases_with_aggregate": n(lambda r: r["input"]["flags"]["aggregate"] != ""),
        "cases_without_count_flag": n(lambda r: r["input"]["cmd"] == "api" and not r["input"]["flags"]["count"]),
        "table_rows_observed": sum(len(r["observed"]["with"]["table"]["rows"]) + len(r["observed"]["base"]["table"]["rows"]) for r in records),
        "graph_edges_observed": sum(len(s["edges"]) for r in records for o in ("base", "with") for s in r["observed"][o]["segs"])
                                + sum(len(r["observed"][o]["edges"]) for r in records for o in ("base", "with")),
        "panics_observed": n(lambda r: r["observed"]["panic"]),
    }
