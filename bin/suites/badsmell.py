"""badsmell suite (C10): bad-smell findings match the documented thresholds exactly; the ignore
option removes exactly the named kinds; `-s type` groups by kind with sized kinds by size.

Machine spec/BadSmell.tla (AnalysisPath loop + listener registers + countMethodIfSwitch per top-level
statement + the check* functions + FilterBadSmellList + SortSmellByType / isSmellHaveSize) is
model-checked against the Reference spec/BadSmellRef.tla; every abstract input TLC explored (sampled in
the quick tier) is rendered to Java text and analysed by the real code - in process
(AnalysisPath + IdentifyBadSmell) and through the coca binary (`coca bs -p DIR -x .. [-s type]`) - plus
seeded random trees from the harness generator; spec/BadSmell_Trace.tla judges the observations.
"""

TRACE = ("BadSmell_Trace", "BadSmell_Trace.cfg")
PROPS_ALL = ["C10_LayoutOK", "C10_FindingsExact", "C10_IgnoreExact", "C10_SortedBySizeWithinKind", "C10_Reference"]


def plan(pid, tier, seed):
    quick = tier == "quick"
    if quick:
        mc = [
            {"module": "BadSmell", "cfg": "BadSmell_MC_quick.cfg", "emit": True, "sample": 1300, "properties": PROPS_ALL, "timeout": 600},
        ]
    else:
        mc = [
            {"module": "BadSmell", "cfg": "BadSmell_MC_quick.cfg", "emit": True, "sample": 8000, "properties": PROPS_ALL, "timeout": 900},
            {"module": "BadSmell", "cfg": "BadSmell_MC_thorough.cfg", "emit": True, "sample": 8000, "properties": PROPS_ALL,
             "timeout": 3600, "coverage": True},
        ]
    return {
        "harness": "badsmell",
        "needs_coca": True,
        "mc": mc,
        "gen": [],
        "rand": 300 if quick else 4000,
        "trace": TRACE,
        "run_timeout": 6000,
    }


def case_from_tlc(obj, h, g):
    inp = obj["input"]
    for f in inp["files"]:
        if not isinstance(f.get("methods"), list):
            f["methods"] = []
        for m in f["methods"]:
            if not isinstance(m.get("stmts"), list):
                m["stmts"] = []
    if not isinstance(inp.get("ignore"), list):
        inp["ignore"] = []
    # the coca binary is run whenever the sort option is on (cmd/bs.go is the only caller of the sort) and
    # for every third of the other cases (it costs 0.2 s of profiler shutdown per run)
    return {"case": "tlc-" + h, "input": inp, "cli": bool(inp["sort"]) or int(h, 16) % 3 == 0}


def _mth(nk="normal", params=0, length=2, stmts=None):
    return {"nk": nk, "ann": 0, "params": params, "va": False, "abs": False, "len": length, "stmts": stmts or []}


def _sized_file(k, kind, lv):
    """One file with exactly one finding of a sized kind, size = smallest reported size + lv (as BadSmell!SizedFile)."""
    f = {"name": "F%d" % k, "kind": "class", "ext": False, "methods": [], "padGet": 0, "padNormal": 0}
    if kind == "longParameterList":
        f["methods"] = [_mth(params=6 + lv)]
    elif kind == "longMethod":
        f["methods"] = [_mth(length=31 + lv)]
    elif kind == "repeatedSwitches":
        f["methods"] = [_mth(stmts=[{"t": "if", "h": 1, "nh": 0, "n": 8 + lv}])]
    elif kind == "largeClass":
        f["padNormal"] = 20 + lv
    else:
        f["padGet"] = 1 + lv
    return f


def fixed_cases(pid, tier, seed):
    """The `sort` family of the Machine is small but a uniform sample of all emitted inputs picks few of it:
    every sized kind with its sizes in six orders over two / three files is always replayed with -s type
    (abstract inputs only; TLC judges them like every other case)."""
    out = []
    orders = [(0, 1), (1, 0), (0, 1, 2), (2, 0, 1), (1, 1, 0), (0, 2, 1)]
    for kind in ["largeClass", "repeatedSwitches", "longParameterList", "longMethod", "dataClass"]:
        for o in orders:
            files = [_sized_file(i + 1, kind, lv) for i, lv in enumerate(o)]
            out.append({"case": "fixed-sort-%s-%s" % (kind, "".join(map(str, o))),
                        "input": {"files": files, "ignore": [], "sort": True}, "cli": True})
    # two findings of one kind inside one file, and all five kinds at once
    both = {"name": "F1", "kind": "class", "ext": False, "padGet": 0, "padNormal": 0,
            "methods": [_mth(params=6), _mth(params=8), _mth(length=31), _mth(length=35),
                        _mth(stmts=[{"t": "switch", "h": 1, "nh": 0, "n": 8}]), _mth(stmts=[{"t": "if", "h": 1, "nh": 0, "n": 10}])]}
    out.append({"case": "fixed-sort-one-file", "input": {"files": [both], "ignore": [], "sort": True}, "cli": True})
    out.append({"case": "fixed-sort-one-file-x", "input": {"files": [both], "ignore": ["longMethod"], "sort": True}, "cli": True})
    return out


def nontrivial(rec):
    # an input on which at least one finding was made, or from which the ignore list removed everything
    o = rec.get("observed", {})
    return bool(o.get("api")) or bool(rec["input"].get("ignore"))


def extra_evidence(records):
    """How the replayed inputs cover the thresholds (measured on the rendered text, not on the request)."""
    dist = {}          # closing brace - header line, around the threshold
    params = {}
    ifs = {}
    sws = {}
    heights = {}
    normals = {}
    kinds = {}
    sorted_groups = 0
    for r in records:
        for f, ff in zip(r["input"]["files"], r["facts"]["files"]):
            nn = f["padNormal"] + sum(1 for m in f["methods"] if m["nk"] == "normal")
            if 17 <= nn <= 23:
                normals[nn] = normals.get(nn, 0) + 1
            for m, mf in zip(f["methods"], ff["methods"]):
                d = mf["close"] - mf["start"]
                if 27 <= d <= 34:
                    dist[d] = dist.get(d, 0) + 1
                if 3 <= m["params"] <= 8:
                    params[m["params"]] = params.get(m["params"], 0) + 1
                ni = sum(g["n"] for g in m["stmts"] if g["t"] == "if")
                ns = sum(g["n"] for g in m["stmts"] if g["t"] == "switch")
                if 6 <= ni <= 10:
                    ifs[ni] = ifs.get(ni, 0) + 1
                if 6 <= ns <= 10:
                    sws[ns] = sws.get(ns, 0) + 1
                for c in mf["conds"]:
                    hgt = c[1] - c[0] + 1
                    if 2 <= hgt <= 6:
                        heights[hgt] = heights.get(hgt, 0) + 1
        for x in r["observed"].get("api", []):
            kinds[x["kind"]] = kinds.get(x["kind"], 0) + 1
        for g in r["observed"].get("cli", {}).get("groups", []):
            if len(g["items"]) > 1:
                sorted_groups += 1

    def srt(d):
        return {str(k): d[k] for k in sorted(d)}

    return {"methods_by_brace_distance": srt(dist), "methods_by_parameter_count": srt(params),
            "methods_by_top_level_ifs": srt(ifs), "methods_by_top_level_switches": srt(sws),
            "conditions_by_height": srt(heights), "files_by_ordinary_method_count": srt(normals),
            "findings_by_kind_in_process": srt(kinds), "groups_with_several_findings": sorted_groups}
