"""apriori suite (extension X04): the association-rule miner pkg/infrastructure/apriori
(NewApriori(tx).Calculate(NewOptions(minSupport, minConfidence, minLift, maxLength))) and its two users, evaluate's
related-parameter search and git's related-file search (`coca git -r`).

Machine spec/X04Apriori.tla (addTransaction's index table, the level-wise candidate loop with createNextCandidates'
subset pruning, the ordered statistics, the two consuming loops) is model-checked AS THE CODE IS against the brute-force
Reference spec/X04AprioriRef.tla (every discrepancy must carry the tag of a listed defect shape; level-wise pruning
loses no frequent set), and once with both repairs (exact).  The inputs TLC explored are replayed on the real code
(the miner in-process on the list and on a reordered copy; evaluate through evaluate.Analyser and `coca evaluate`;
git through GetRelatedFiles and `coca git -r` in a real repository), plus seeded random wider cases;
spec/X04Apriori_Trace.tla judges.
"""
import random

TRACE = ("X04Apriori_Trace", "X04Apriori_Trace.cfg")
ASIS = ["X04_ResultExactOrTagged", "X04_CandidatesComplete", "X04_NoFrequentSetLost", "X04_CandidateShape", "X04_IndexTable"]
REPAIRED = ["X04_ResultExact", "X04_CandidatesComplete", "X04_NoFrequentSetLost", "X04_CandidateShape", "X04_IndexTable"]


def _mc(cfg, sample, props=ASIS, emit=True, timeout=900, coverage=False):
    return {"module": "X04Apriori", "cfg": "X04Apriori_MC_%s.cfg" % cfg, "emit": emit, "sample": sample, "properties": props,
            "timeout": timeout, "coverage": coverage}


def plan(pid, tier, seed):
    quick = tier == "quick"
    if quick:
        mc = [
            _mc("quick", 1100),            # 7 140 inputs
            _mc("stop", 200),
            _mc("evaluate_quick", 259),    # 259 inputs (<= 3 methods; 5 methods and the 0.8 tie: fixed cases, random cases, thorough)
            _mc("git_quick", 300),         # 468 inputs
            _mc("repaired_quick", None, props=REPAIRED, emit=False),
        ]
    else:
        mc = [
            _mc("quick", None),
            _mc("stop", None),
            _mc("evaluate", None, timeout=3600),
            _mc("git", None, timeout=3600, coverage=True),   # every action of the Machine is taken in this mode
            _mc("options", 8000, timeout=3600),
            _mc("thorough", 30000, timeout=7200),
            _mc("dups", 15000, timeout=7200),
            _mc("repaired", None, props=REPAIRED, emit=False, timeout=3600),
        ]
    return {
        "harness": "apriori",
        "needs_coca": True,
        "mc": mc,
        "gen": [],
        "rand": 1300 if quick else 25000,
        "trace": TRACE,
        "run_timeout": 6000,
    }


# --------------------------------------------------------------------------- TLC inputs -> cases

_SERVICE = ["OrderService", "BookService", "userservice", "SERVICEHub"]
_OTHER = ["OrderHelper", "Servic", "BookRepository"]


def _evaluate_case(tx, rnd):
    """Every transaction TLC chose is one long-parameter method of a service class; methods that must be ignored
    (fewer than 4 parameters, or in a class that is no service) are mixed in."""
    classes = [{"name": rnd.choice(_SERVICE), "service": True, "methods": []} for _ in range(rnd.choice([1, 1, 2]))]
    for k, t in enumerate(tx):
        params = list(t)
        rnd.shuffle(params)
        rnd.choice(classes)["methods"].append({"name": "op%d" % k, "params": params})
    pool = sorted({x for t in tx for x in t}) or ["id", "name", "age", "city"]
    for k in range(rnd.randrange(3)):
        rnd.choice(classes)["methods"].insert(0, {"name": "few%d" % k, "params": rnd.sample(pool, min(len(pool), rnd.randrange(4)))})
    if rnd.randrange(2) == 0:
        ms = [{"name": "other%d" % k, "params": (pool + ["zip", "note", "flag", "code"])[:4 + rnd.randrange(2)]} for k in range(1 + rnd.randrange(3))]
        classes.insert(rnd.randrange(len(classes) + 1), {"name": rnd.choice(_OTHER), "service": False, "methods": ms})
    return classes


def _git_case(tx, rnd, cli):
    """Every transaction TLC chose is one commit changing those source files; test files, other files and commits that
    must be ignored (more than ten changed files, fewer than three source files) are mixed in."""
    noise = [{"pre": "src/test/java/", "core": False, "segs": ["ATest.java"]}, {"pre": "", "core": False, "segs": ["README.md"]},
             {"pre": "", "core": False, "segs": ["BTest.java"]}, {"pre": "web/", "core": False, "segs": ["app.js"]}]
    commits = []
    names = sorted({x for t in tx for x in t}) or ["A.java", "B.java"]
    for t in tx:
        ch = [{"pre": "", "core": False, "segs": [x]} for x in t]
        ch += rnd.sample(noise, rnd.randrange(3))
        rnd.shuffle(ch)
        commits.append({"changes": ch})
    for _ in range(rnd.randrange(3)):
        if rnd.randrange(2) == 0:     # too many changed files
            ch = [{"pre": "", "core": False, "segs": [x]} for x in names[:4]]
            ch += [{"pre": "assets/", "core": False, "segs": ["img%d.png" % k]} for k in range(11 - len(ch))]
        else:                         # too few source files
            ch = [{"pre": "", "core": False, "segs": [x]} for x in rnd.sample(names, min(len(names), rnd.randrange(3)))]
            ch += rnd.sample(noise, rnd.randrange(3))
        rnd.shuffle(ch)
        commits.insert(rnd.randrange(len(commits) + 1), {"changes": ch})
    if cli and not commits:       # `git log` refuses a repository without any commit
        commits.append({"changes": [noise[1]]})
    return commits


def case_from_tlc(obj, h, g):
    inp = obj["input"]
    rnd = random.Random(int(h, 16))
    tx = [list(t) if isinstance(t, list) else [] for t in (inp["tx"] if isinstance(inp.get("tx"), list) else [])]
    kind = inp["kind"]
    base = {"kind": kind, "via": "api", "tx": [], "tx2": [], "opt": inp["opt"], "classes": [], "commits": []}
    if kind == "miner":
        tx2 = [list(t) for t in tx]
        rnd.shuffle(tx2)
        for t in tx2:
            rnd.shuffle(t)
        base.update(tx=tx, tx2=tx2)
    elif kind == "evaluate":
        base.update(via="cli" if rnd.randrange(40) == 0 else "model", classes=_evaluate_case(tx, rnd))
    else:
        cli = rnd.randrange(120) == 0
        base.update(via="cli" if cli else "api", commits=_git_case(tx, rnd, cli))
    return {"case": "tlc-" + h, "input": base}


# --------------------------------------------------------------------------- fixed cases

def _q(n, d):
    return {"num": n, "den": d}


def fixed_cases(pid, tier, seed):
    """A few named situations: the shape of the repository's own fixture (two service classes, five parameters each,
    four shared), the support boundary 4 of 5 / 3 of 5 methods, a market-basket example with every option in play."""
    dflt = {"sup": _q(1, 2), "conf": _q(0, 1), "lift": _q(0, 1), "maxlen": 0}
    empty = {"tx": [], "tx2": [], "opt": dflt, "classes": [], "commits": []}

    def ev(name, lists, via="model"):
        cl = [{"name": "Book%dService" % k, "service": True, "methods": [{"name": "update", "params": p}]} for k, p in enumerate(lists)]
        return {"case": "fixed-" + name, "input": dict(empty, kind="evaluate", via=via, classes=cl)}

    four = ["firstname", "lastname", "address", "age"]
    out = [
        ev("fixture-shape", [four + ["id"], ["name"] + four]),
        ev("fixture-shape-cli", [four + ["id"], ["name"] + four], via="cli"),
        ev("four-of-five", [four + ["id"], four, four + ["x"], ["y"] + four, ["id", "x", "y", "zip"]]),
        ev("three-of-five", [four + ["id"], four, four + ["x"], ["y", "id", "x", "zip"], ["id", "x", "y", "zip"]]),
        ev("two-groups", [["a", "b", "c", "d", "e", "f"], ["f", "e", "d", "c", "b", "a"]]),
        ev("none", []),
    ]
    basket = [["beer", "nuts"], ["beer", "cheese"], ["beer", "nuts", "cheese"], ["nuts"], ["beer", "nuts", "bread"], []]
    for k, opt in enumerate([dflt, {"sup": _q(1, 3), "conf": _q(2, 3), "lift": _q(1, 1), "maxlen": 0},
                             {"sup": _q(1, 6), "conf": _q(1, 1), "lift": _q(6, 5), "maxlen": 2},
                             {"sup": _q(1, 2), "conf": _q(3, 4), "lift": _q(0, 1), "maxlen": 1}]):
        out.append({"case": "fixed-basket-%d" % k,
                    "input": dict(empty, kind="miner", via="api", tx=basket, tx2=[list(reversed(t)) for t in reversed(basket)], opt=opt)})
    return out


# --------------------------------------------------------------------------- evidence

def nontrivial(rec):
    i = rec["input"]
    if i["kind"] == "miner":
        return any(t for t in i["tx"])
    if i["kind"] == "evaluate":
        return any(c["service"] and any(len(m["params"]) >= 4 for m in c["methods"]) for c in i["classes"])
    return any(len(c["changes"]) >= 3 for c in i["commits"])


def extra_evidence(records):
    def n(f):
        return sum(1 for r in records if f(r))

    def repeated(r):
        i = r["input"]
        lists = i["tx"] if i["kind"] == "miner" else [m["params"] for c in i["classes"] for m in c["methods"]]
        return any(len(set(t)) != len(t) for t in lists)

    def stop(r):
        i = r["input"]
        return any("STOP" in t for t in i["tx"]) or any("STOP" in m["params"] for c in i["classes"] for m in c["methods"])

    return {
        "miner_cases": n(lambda r: r["input"]["kind"] == "miner"),
        "evaluate_cases": n(lambda r: r["input"]["kind"] == "evaluate"),
        "evaluate_cases_via_cli": n(lambda r: r["input"]["kind"] == "evaluate" and r["input"]["via"] == "cli"),
        "git_cases": n(lambda r: r["input"]["kind"] == "git"),
        "git_cases_via_cli": n(lambda r: r["input"]["kind"] == "git" and r["input"]["via"] == "cli"),
        "relation_records_observed": sum(len(run["records"]) for r in records for run in r["observed"]["runs"]),
        "related_groups_reported_by_evaluate": n(lambda r: r["input"]["kind"] == "evaluate" and r["observed"]["related"]),
        "related_groups_reported_by_git": sum(len(r["observed"]["groups"]) for r in records),
        "cases_with_an_item_repeated_in_a_transaction": n(repeated),
        "cases_with_an_item_named_STOP": n(stop),
        "panics_observed": n(lambda r: r["observed"]["panic"]),
    }
