"""Deps suite (C19): pom.xml / build.gradle front-ends and the unused-dependency report."""

TRACE = ("Deps_Trace", "Deps_Trace.cfg")
PROPS_ALL = ["C19_NoPanic", "C19_ExtractedExact", "C19_PrefixExact", "C19_OtherNotationsSkipped", "C19_UnusedExact"]
STRING_NOTATIONS = ("dep", "sq", "dq", "psq", "pdq")


def plan(pid, tier, seed):
    quick = tier == "quick"
    if quick:
        mc = [
            # pom cases are cheap to replay (10 ms) and only 3 % of the cases of Deps_MC_*: own enumeration with a large sample,
            # listed first (check de-duplicates emitted cases across cfgs, so the samples of Deps_MC_* are then all gradle cases)
            {"module": "Deps", "cfg": "Deps_Gen_pom_quick.cfg", "emit": True, "sample": 250, "properties": PROPS_ALL, "timeout": 600},
            {"module": "Deps", "cfg": "Deps_MC_quick.cfg", "emit": True, "sample": 170, "properties": PROPS_ALL, "timeout": 600},
            {"module": "Deps", "cfg": "Deps_Gen_unused_quick.cfg", "emit": True, "sample": 120, "properties": PROPS_ALL, "timeout": 600},
        ]
    else:
        mc = [
            # all 2925 pom cases are replayed (no sampling)
            {"module": "Deps", "cfg": "Deps_Gen_pom_thorough.cfg", "emit": True, "sample": 3000, "properties": PROPS_ALL, "timeout": 3000},
            {"module": "Deps", "cfg": "Deps_MC_thorough.cfg", "emit": True, "sample": 3500, "properties": PROPS_ALL, "timeout": 3000,
             "coverage": True},
            {"module": "Deps", "cfg": "Deps_Gen_unused_thorough.cfg", "emit": True, "sample": 1500, "properties": PROPS_ALL, "timeout": 3000},
            {"module": "Deps", "cfg": "Deps_Gen_unused2_thorough.cfg", "emit": True, "sample": 1500, "properties": PROPS_ALL, "timeout": 3000},
        ]
    return {
        "harness": "deps",
        "mc": mc,
        "gen": [],
        "rand": 400 if quick else 4000,
        "trace": TRACE,
        "run_timeout": 6000,
    }


def case_from_tlc(obj, h, g):
    inp = obj["input"]
    if not isinstance(inp.get("sources"), list):
        inp["sources"] = []
    # layout carries no meaning: half of the TLC cases are rendered canonically, the others with a layout derived from the hash
    lay = int(h[:6], 16)
    for m in inp["manifests"]:
        m["layout"] = 0 if lay % 2 == 0 else 1 + (lay // 2) % 997
    return {"case": "tlc-" + h, "input": inp, "machine": obj.get("machine", {})}


def nontrivial(rec):
    # at least one dependency in string notation / one <dependency>
    return any(e["notation"] in STRING_NOTATIONS for m in rec["input"]["manifests"] for e in m["entries"])


def fixed_cases(pid, tier, seed):
    """Regression seeds: the shapes of the defects found while building the suite (DESIGN.md section 8, proposed_fixes/C19.md)."""
    def e(n, g, a, s, v="", ch=None, cm=""):
        return {"notation": n, "group": g, "artifact": a, "scope": s, "version": v, "children": ch or [], "comment": cm}

    def gradle(entries, before=None, after=None):
        return {"kind": "gradle", "dir": "", "before": before or [], "after": after or [], "entries": entries, "layout": 0}

    def src(unit, names):
        return {"dir": "", "tree": "main", "unit": unit, "imports": [{"name": n, "form": "type"} for n in names]}

    sq = e("sq", "org.a", "core", "implementation", "1.0")
    cases = [
        ("dq", [gradle([sq, e("dq", "io.x", "lib", "api"), e("dq", "io.x", "lib2", "api", "2.0")])], []),
        ("gstring", [gradle([e("dq", "io.x", "lib", "api", "${libVersion}"), sq], before=["ext"])], []),
        ("project", [gradle([sq, e("project", "", "core", "implementation"), e("sq", "io.x", "lib", "testCompile")])], []),
        ("pproject", [gradle([e("pproject", "", "core", "implementation"), sq])], []),
        ("filetree", [gradle([e("filetree", "", "libs", "implementation"), sq, e("files", "", "a", "compile")])], []),
        ("empty-block", [gradle([], before=["plugins"], after=["test"])], [src("class", ["org.a.Api"])]),
        ("block-comment", [gradle([sq], before=["comment"])], []),
        ("enum-only-import", [gradle([sq, e("sq", "io.x", "lib", "api")])], [src("enum", ["org.a.Api"]), src("class", ["java.util.List"])]),
        ("maven-sample", [{"kind": "pom", "dir": "", "before": ["parent", "coords", "properties"], "after": ["depMgmt", "build"], "layout": 0,
                           "entries": [e("dep", "org.a", "core", "", "", ["groupId", "artifactId"]),
                                       e("dep", "io.x", "lib", "test", "", ["groupId", "artifactId", "scope", "exclusions"]),
                                       e("dep", "mysql", "connector", "runtime", "", ["groupId", "artifactId", "scope"])]}],
         [src("class", ["org.a.Api"]), src("interface", ["io.x.util.Helper"])]),
    ]
    return [{"case": "fixed-" + name, "input": {"manifests": ms, "sources": ss}} for name, ms, ss in cases]


def extra_evidence(records):
    """Informational only (never a verdict): how often the TLA+ Machine's own output for a TLC-generated input
    differs from what the real code returned (drift = the Machine misrepresents the code, or the code has a defect)."""
    n = drift = 0
    examples = []
    for r in records:
        m = r.get("machine")
        if not m:
            continue
        n += 1
        o = r["observed"]
        ex = o["extract"][0] if o["extract"] else {"panic": False, "deps": []}
        same = (bool(m["panic"]) == bool(o["panic"]))
        if same and not m["panic"]:
            same = list(m["extracted"]) == ex["deps"] and list(m["unused"]) == o["unused"]["deps"] == o["table"]["deps"]
        if not same:
            drift += 1
            if len(examples) < 3:
                examples.append(r["case"])
    return {"machine_vs_code_compared": n, "machine_vs_code_drift": drift, "drift_examples": examples}
