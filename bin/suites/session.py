"""session suite (extension X10): sequences of coca commands in one working directory / one process.

Machine spec/X10Session.tla (coca_reporter/ as a cache with provenance: which steps the content of every file depends
on; one action per command, branch by branch like cmd/*.go) is model-checked: its table is the Reference's fold, slices
are closed, and replaying a slice alone reproduces for its last step exactly the files it found in the session. Every
session TLC explored is emitted WITH the slice of every step; the harness runs the session and every slice in fresh
working directories (the coca binary, one process per step; or cmd.NewRootCmd serving a whole run in one fresh process)
and spec/X10Session_Trace.tla judges: a step reports in the session what it reports at the end of its slice.
"""
import random

TRACE = ("X10Session_Trace", "X10Session_Trace.cfg")
PROPS = ["X10_TableIsReference", "X10_SliceClosed", "X10_SliceReplays"]


def plan(pid, tier, seed):
    quick = tier == "quick"
    if quick:
        mc = [
            {"module": "X10Session", "cfg": "X10Session_MC_quick.cfg", "emit": True, "sample": 130, "properties": PROPS, "timeout": 600},
            {"module": "X10Session", "cfg": "X10Session_MC_cache_quick.cfg", "emit": True, "sample": 70, "properties": PROPS, "timeout": 600},
        ]
    else:
        mc = [
            {"module": "X10Session", "cfg": "X10Session_MC_quick.cfg", "emit": True, "sample": 1500, "properties": PROPS, "timeout": 900},
            {"module": "X10Session", "cfg": "X10Session_MC_thorough.cfg", "emit": True, "sample": 1500, "properties": PROPS, "timeout": 1800,
             "coverage": True},
            {"module": "X10Session", "cfg": "X10Session_MC_cache.cfg", "emit": True, "sample": 1000, "properties": PROPS, "timeout": 1800},
        ]
    return {
        "harness": "session",
        "needs_coca": True,
        "mc": mc,
        # longer sessions than TLC can enumerate: simulated behaviours of the same Machine (8 commands, three projects)
        "gen": [{"module": "X10Session", "cfg": "X10Session_Sim.cfg", "simulate": 40 if quick else 600, "depth": 20, "workers": 1,
                 "timeout": 300, "sample": 25 if quick else 400}],
        "rand": 14,       # the harness's fixed sessions, once through the binary and once through the root command
        "trace": TRACE,
        "run_timeout": 6000,
    }


def case_from_tlc(obj, h, g):
    steps = obj["steps"] if isinstance(obj.get("steps"), list) else []
    slices = obj["slices"] if isinstance(obj.get("slices"), list) else []
    slices = [s if isinstance(s, list) else [] for s in slices]
    rnd = random.Random(int(h, 16))
    # one session in three is served by the root command inside one process per run
    return {"case": "tlc-" + h, "via": "cmd" if rnd.randrange(3) == 0 else "cli", "steps": steps, "slices": slices}


def nontrivial(rec):
    # a session in which some step reads a file an earlier step wrote
    return any(len(s) > 1 for s in rec["slices"])


def extra_evidence(records):
    cmds = {}
    proper = 0
    for r in records:
        for i, s in enumerate(r["steps"]):
            cmds[s["cmd"]] = cmds.get(s["cmd"], 0) + 1
            if len(r["slices"][i]) < i + 1:
                proper += 1
    return {"sessions_via_binary": sum(1 for r in records if r["via"] == "cli"),
            "sessions_via_root_command_in_one_process": sum(1 for r in records if r["via"] == "cmd"),
            "steps_by_command": cmds,
            "steps_whose_slice_is_a_proper_subset_of_their_prefix": proper,
            "steps_failed": sum(1 for r in records for o in r["observed"]["full"] if o["failed"])}
