"""CallGraph / RCallGraph suite (C03, C04, and the call-graph part of C07)."""

TRACE = ("CallGraph_Trace", "CallGraph_Trace.cfg")
PROPS_ALL = ["C03_EdgeSound", "C03_BudgetBound", "C04_EdgeSound", "C03_C04_Reference", "C07_SameTwice"]


def plan(pid, tier, seed):
    quick = tier == "quick"
    if quick:
        mc = [
            {"module": "CallGraph", "cfg": "CallGraph_MC_quick.cfg", "emit": True, "sample": 2500, "properties": PROPS_ALL, "timeout": 600},
            {"module": "CallGraph", "cfg": "CallGraph_Live_quick.cfg", "emit": True, "sample": 1500,
             "properties": PROPS_ALL + ["C03_C04_Terminates"], "timeout": 600},
        ]
    else:
        mc = [
            {"module": "CallGraph", "cfg": "CallGraph_MC_thorough.cfg", "emit": True, "sample": 60000, "properties": PROPS_ALL,
             "timeout": 3600, "coverage": False},
            {"module": "CallGraph", "cfg": "CallGraph_MC_api.cfg", "emit": True, "sample": 40000,
             "properties": PROPS_ALL + ["C03_C04_Terminates"], "timeout": 3600},
            {"module": "CallGraph", "cfg": "CallGraph_Live.cfg", "emit": True, "sample": 20000,
             "properties": PROPS_ALL + ["C03_C04_Terminates"], "timeout": 1800, "coverage": True},
        ]
    if quick and pid == "C07":     # C07 only needs the repeated-request histories
        mc = [dict(mc[0], sample=1500)]
    return {
        "harness": "callgraph",
        "needs_coca": True,
        "mc": mc,
        "gen": [],
        "rand": 400 if quick else 20000,
        "trace": TRACE,
        # unbounded complement to C03_BudgetBound / termination: the budget invariant is inductive for ALL models
        "apalache": ([{"module": "Budget", "init": "Init", "inv": "IndInv", "length": 0},
                      {"module": "Budget", "init": "IndInv", "inv": "IndInv", "length": 1}] if pid == "C03" else []),
    }


def case_from_tlc(obj, h, g):
    inp = obj["input"]
    if isinstance(inp.get("di"), list):      # ToJson(<<>>) is [] ; the DI map is an object
        inp["di"] = {}
    for o in obj["ops"]:
        if not isinstance(o.get("apis"), list):
            o["apis"] = []
    return {"case": "tlc-" + h, "input": inp, "ops": obj["ops"]}


def nontrivial(rec):
    # a model with at least one resolved call
    return any(m["calls"] for m in rec["input"]["methods"])
