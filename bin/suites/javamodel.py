"""Java code model suite: identifier + full pass (C01, C02, C07 listener part)."""

TRACE = ("JavaModel_Trace", "JavaModel_Trace.cfg")


def plan(pid, tier, seed):
    quick = tier == "quick"
    return {
        "harness": "javamodel",
        "mc": [],
        "gen": [],
        "rand": 300 if quick else 8000,
        "trace": TRACE,
    }


def nontrivial(rec):
    return any(f["unit"]["members"] for f in rec["files"])
