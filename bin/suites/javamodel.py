"""Java code model suite: identifier + full pass (C01, C02, C07 listener part)."""

TRACE = ("JavaModel_Trace", "JavaModel_Trace.cfg")
PROPS = ["C02_ReceiverResolved", "C07_ScopeReset"]


def plan(pid, tier, seed):
    quick = tier == "quick"
    mc = []
    if pid in ("C02", "C07", ""):
        if quick:
            mc = [{"module": "JavaCalls", "cfg": "JavaCalls_MC_quick.cfg", "emit": True, "sample": 1200 if pid != "C07" else 800,
                   "properties": PROPS, "timeout": 600, "pid": pid}]
        else:
            mc = [{"module": "JavaCalls", "cfg": "JavaCalls_MC_thorough.cfg", "emit": True, "sample": 30000,
                   "properties": PROPS, "timeout": 1800, "pid": pid}]
    if pid in ("C01", ""):
        mc.append({"module": "JavaDecl", "cfg": "JavaDecl_MC_quick.cfg" if quick else "JavaDecl_MC_thorough.cfg", "emit": True,
                   "sample": 1500 if quick else 40000, "properties": ["C01_IdentExact", "C01_FullExact"], "timeout": 1800, "pid": pid, "decl": True})
    return {
        "harness": "javamodel",
        "needs_coca": True,
        "mc": mc,
        "gen": [],
        "rand": (900 if quick else 12000),
        "trace": TRACE,
    }


def _call(recv_kind, recv):
    return {"k": "expr", "type": "", "name": "", "then": [], "els": [], "cases": [],
            "e": {"k": "call", "text": "", "recvKind": recv_kind, "recv": recv, "callee": "m", "args": [], "type": ""}}


def _decl_case(obj, h):
    """callback history of the JavaDecl Machine -> one abstract unit"""
    unit = {"kind": "class", "name": "K", "tparams": "", "ext": "", "extq": "", "impls": [], "anns": [], "members": []}
    for ev in obj["events"]:
        e = ev["e"]
        if e == "file":
            unit["kind"] = ev["kind"]
        elif e == "classann":
            unit["anns"].append({"name": ev["name"], "form": "marker", "args": []})
        elif e == "member":
            unit["members"].append({
                "kind": "ctor" if ev["mk"] == "ctor" else "method", "name": ev["name"], "type": "" if ev["mk"] == "ctor" else "void",
                "params": [dict(type=p["type"], name=p["name"]) for p in ev["params"]],
                "mods": ["public"] if unit["kind"] == "class" else [], "generic": "", "body": [], "throws": [],
                "anns": ([{"name": ev["ann"], "form": "marker", "args": []}] if ev["ann"] else []), "sameLine": bool(ev["same"])})
    f = {"id": "f1", "pathKind": "main", "dirs": "p", "pkg": "p", "imports": [], "unit": unit}
    return {"case": "tlc-" + h, "files": [f], "layout": int(h[:6], 16) % 10000, "runs": [], "fresh": []}


def case_from_tlc(obj, h, g):
    """TLC emits the callback history of the JavaCalls / JavaDecl Machine; turn it into abstract files."""
    if g.get("decl"):
        return _decl_case(obj, h)
    files = []
    cur = None
    meth = None
    for ev in obj["events"]:
        e = ev["e"]
        if e == "file":
            cur = {"id": "f%d" % (len(files) + 1), "pathKind": "main", "dirs": "p", "pkg": "p",
                   "imports": [dict(pkg=i["pkg"], name=i["name"]) for i in ev["imports"]],
                   "unit": {"kind": "class", "name": ev["cls"], "tparams": "", "ext": "", "extq": "", "impls": [], "anns": [], "members": []}}
            files.append(cur)
            meth = None
        elif e == "field":
            cur["unit"]["members"].append({"kind": "field", "name": ev["name"], "type": ev["type"], "params": [], "mods": ["private"],
                                           "anns": [], "generic": "", "body": [], "sameLine": False})
        elif e == "method":
            n = sum(1 for m in cur["unit"]["members"] if m["kind"] == "method")
            meth = {"kind": "method", "name": "m%d" % (n + 1), "type": "void", "params": [dict(type=p["type"], name=p["name"]) for p in ev["params"]],
                    "mods": ["public"], "anns": [], "generic": "", "body": [], "sameLine": False}
            cur["unit"]["members"].append(meth)
        elif e == "endmethod":
            meth = None
        elif e == "decl":
            meth["body"].append({"k": "decl", "type": ev["type"], "name": ev["name"], "then": [], "els": [], "cases": []})
        elif e == "assign":
            meth["body"].append({"k": "assign", "type": "", "name": ev["name"], "then": [], "els": [], "cases": [],
                                 "e": {"k": "new", "text": "", "recvKind": "", "recv": "", "callee": "", "args": [], "type": ev["type"]}})
        elif e == "call":
            meth["body"].append(_call("var", ev["recv"]))
        elif e == "unq":
            meth["body"].append(_call("none", ""))
    files.append({"id": "bar", "pathKind": "main", "dirs": "p", "pkg": "p", "imports": [],
                  "unit": {"kind": "class", "name": "Bar", "tparams": "", "ext": "", "extq": "", "impls": [], "anns": [], "members": []}})
    n = len(files)
    runs = []
    if g.get("pid") == "C07" or int(h[:2], 16) % 4 == 0:
        idx = list(range(1, n + 1))
        runs = [idx, idx[::-1], idx[:1], idx]
    fresh = [False, True, True, False] if runs else []
    # every other history is preceded, in the same process, by the analysis of a slightly different project
    return {"case": "tlc-" + h, "files": files, "layout": int(h[:6], 16) % 10000, "runs": runs, "fresh": fresh,
            "prelude": bool(runs) and int(h[2:4], 16) % 2 == 0}


def nontrivial(rec):
    return any(f["unit"]["members"] for f in rec["files"])
