"""cocafile suite (extension X07): the file walkers of pkg/adapter/cocafile (GetFilesWithFilter, GetJavaFiles,
GetJavaTestFiles, the exported filters, the root .gitignore): for any directory tree and any way of naming its root a walker
returns exactly the regular files its predicate selects that the root .gitignore does not ignore and that are not below a
testData directory, each once, never a directory, the same list on the second request.

Machine spec/X07CocaFile.tla (the line loop of the .gitignore reader, one callback of filepath.Walk per member with its
branches, the path as spelled) is model-checked against the Reference spec/X07CocaFileRef.tla; the trees TLC explored are
built on disk and walked by the real code (in-process; a share by `coca analysis` / `coca tbs`), plus seeded random wider
trees; spec/X07CocaFile_Trace.tla judges the observations.
"""
import random

TRACE = ("X07CocaFile_Trace", "X07CocaFile_Trace.cfg")
PROPS = ["X07_Exact (= X07_Complete, X07_Sound, X07_NoDirectory, X07_Once)", "X07_Slice"]
ADDRS = ["dot", "rel", "relslash", "abs"]


def plan(pid, tier, seed):
    quick = tier == "quick"
    M = "X07CocaFile"
    if quick:
        mc = [
            # 75 512 states, 20 160 trees x walker x root x .gitignore, sampled
            {"module": M, "cfg": M + "_MC_quick.cfg", "emit": True, "sample": 2500, "properties": PROPS, "timeout": 900},
            # roots whose own path matters: 30 348 states, 8 748 cases
            {"module": M, "cfg": M + "_MC_roots.cfg", "emit": True, "sample": 700, "properties": PROPS, "timeout": 600},
            # links: 10 686 states, 3 360 cases;  go / ts / pom: 14 664 states, 4 800 cases
            {"module": M, "cfg": M + "_MC_links_quick.cfg", "emit": True, "sample": 600, "properties": PROPS, "timeout": 600},
            {"module": M, "cfg": M + "_MC_other_quick.cfg", "emit": True, "sample": 600, "properties": PROPS, "timeout": 600},
        ]
    else:
        mc = [
            {"module": M, "cfg": M + "_MC_quick.cfg", "emit": True, "sample": None, "properties": PROPS, "timeout": 1800},
            # 219 504 states, 58 320 cases
            {"module": M, "cfg": M + "_MC_java.cfg", "emit": True, "sample": 15000, "properties": PROPS, "timeout": 1800},
            {"module": M, "cfg": M + "_MC_roots.cfg", "emit": True, "sample": None, "properties": PROPS, "timeout": 1800},
            # 310 473 states, 89 424 cases
            {"module": M, "cfg": M + "_MC_roots2.cfg", "emit": True, "sample": 15000, "properties": PROPS, "timeout": 1800},
            # 71 112 states, 21 600 cases;  96 840 states, 32 000 cases;  74 097 states, 20 280 cases
            {"module": M, "cfg": M + "_MC_links.cfg", "emit": True, "sample": 10000, "properties": PROPS, "timeout": 1800},
            {"module": M, "cfg": M + "_MC_other.cfg", "emit": True, "sample": 10000, "properties": PROPS, "timeout": 1800},
            {"module": M, "cfg": M + "_MC_negation.cfg", "emit": True, "sample": 10000, "properties": PROPS, "timeout": 3600},
            {"module": M, "cfg": M + "_MC_thorough.cfg", "emit": True, "sample": 15000, "properties": PROPS, "timeout": 3600,
             "coverage": True},
        ]
    return {
        "harness": "cocafile",
        "needs_coca": True,
        "mc": mc,
        "gen": [],
        "rand": 1200 if quick else 20000,
        "trace": TRACE,
        "run_timeout": 6000,
    }


def _seq(x):
    return x if isinstance(x, list) else []


def case_from_tlc(obj, h, g):
    """The tree TLC explored, built on disk. The root is named as TLC chose and, by hash, in further ways (the same tree
    must give the same files however its root is named). By hash 1 in 12 of the Java trees without dangling links and
    links to directories goes through the coca binary (`coca analysis` for the walker code, `coca tbs` for test)."""
    inp = obj["input"]
    rnd = random.Random(int(h, 16))
    entries = [{"path": _seq(e.get("path")), "kind": e["kind"]} for e in _seq(inp.get("entries"))]
    ig = inp["ignore"]
    lines = [{"t": l["t"], "neg": bool(l["neg"]), "name": l["name"], "path": _seq(l.get("path"))} for l in _seq(ig.get("lines"))]
    addrs = _seq(inp.get("addrs"))
    via = "api"
    if inp["walker"] in ("code", "test") and rnd.randrange(12) == 0 and all(e["kind"] in ("file", "dir", "linkfile") for e in entries):
        via = "cli"
    else:
        k = rnd.randrange(4)
        extra = [a for a in ADDRS if a not in addrs]
        rnd.shuffle(extra)
        addrs = addrs + extra[:k]
    return {"case": "tlc-" + h,
            "input": {"via": via, "walker": inp["walker"], "above": _seq(inp.get("above")), "root": inp["root"], "addrs": addrs,
                      "entries": entries,
                      "ignore": {"present": bool(ig["present"]), "crlf": bool(ig.get("crlf", False)) or (via == "api" and rnd.randrange(9) == 0),
                                 "lines": lines}}}


def nontrivial(rec):
    # a tree with at least one member
    return bool(rec.get("input", {}).get("entries"))


def extra_evidence(records):
    def cnt(pred):
        return sum(1 for r in records if pred(r))
    walkers = {}
    addrs = {}
    for r in records:
        walkers[r["input"]["walker"]] = walkers.get(r["input"]["walker"], 0) + 1
        for run in r["observed"]["runs"]:
            addrs[run["addr"]] = addrs.get(run["addr"], 0) + 1
    return {"trees_via_cli": cnt(lambda r: r["input"]["via"] == "cli"),
            "trees_by_walker": walkers, "runs_by_root_naming": addrs,
            "trees_with_gitignore_lines": cnt(lambda r: r["input"]["ignore"]["present"] and r["input"]["ignore"]["lines"]),
            "trees_with_a_negated_line": cnt(lambda r: any(l["neg"] for l in r["input"]["ignore"]["lines"])),
            "trees_with_a_symbolic_link": cnt(lambda r: any(e["kind"] not in ("file", "dir") for e in r["input"]["entries"])),
            "trees_with_a_testData_directory": cnt(lambda r: any(e["kind"] == "dir" and e["path"][-1] == "testData" for e in r["input"]["entries"])),
            "runs_returning_files": sum(1 for r in records for run in r["observed"]["runs"] if run["files"]),
            "panics_observed": sum(1 for r in records for run in r["observed"]["runs"] if run["panic"]) + cnt(lambda r: r["observed"]["panic"])}
