"""Bad-smell pass under permuted / subset / repeated directories (C07, bad-smell part)."""

TRACE = ("BsProcess_Trace", "BsProcess_Trace.cfg")


def plan(pid, tier, seed):
    return {"harness": "bsprocess", "mc": [], "gen": [], "rand": 240 if tier == "quick" else 3000, "trace": TRACE}


def nontrivial(rec):
    return rec.get("nfiles", 0) >= 2
