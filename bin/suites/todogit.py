"""todogit suite (extension X09): `coca todo -g` (todo.TodoApp.BuildWithGitHistory with shell.RunGitGetLog and the header
parser of pkg/application/git): every reported TODO/FIXME carries the author and the author date of the commit that last
touched the comment's line, plus file, line and message; the line the shell adapter returns is that commit's header.

Machine spec/X09TodoGit.tla (histories of line edits; the loop of BuildWithGitHistory; git's backward walk of a line range
through the edits; the header expression) is model-checked against the Reference spec/X09TodoGitRef.tla (forward replay
with line stamps); the histories TLC explored are built with real git and the real code runs inside the repository (a
share through `coca todo -g`), plus seeded random wider histories; spec/X09TodoGit_Trace.tla judges the observations.
"""
import random

TRACE = ("X09TodoGit_Trace", "X09TodoGit_Trace.cfg")
PROPS = ["X09_Details", "X09_LogLine", "X09_WalkIsStamp", "X09_OpenIsTag", "X09_SameTree"]


def _mc(name, sample, timeout=900, coverage=False):
    return {"module": "X09TodoGit", "cfg": "X09TodoGit_MC_%s.cfg" % name, "emit": True, "sample": sample,
            "properties": PROPS, "timeout": timeout, "coverage": coverage}


def plan(pid, tier, seed):
    quick = tier == "quick"
    if quick:
        mc = [
            _mc("quick", 500),        # 7 152 states, 1 570 histories of <= 3 commits on one file
            _mc("two_quick", 250),    # 45 794 states, 9 956 histories on two files
        ]
    else:
        mc = [
            _mc("quick", None), _mc("two_quick", 2500),
            _mc("moves", 3000, timeout=2400, coverage=True),      # 54 440 states, 10 346 histories with a line taken out and put back
            _mc("kinds", 3000, timeout=2400),      # 141 656 states, 24 852 histories over four kinds of line
            _mc("two", 3000, timeout=2400),        # 1 304 722 states, 275 364 histories on two files
            _mc("thorough", 3500, timeout=2400),   # 999 534 states, 194 078 histories of <= 4 commits
        ]
    return {
        "harness": "todogit",
        "needs_coca": True,
        "mc": mc,
        "gen": [],
        "rand": 450 if quick else 5000,
        "trace": TRACE,
        "run_timeout": 9000,
    }


def case_from_tlc(obj, h, g):
    """The history TLC explored, built with real git; one in 10 (by hash) through the coca binary."""
    inp = obj["input"]
    rnd = random.Random(int(h, 16))
    hist = inp["history"] if isinstance(inp.get("history"), list) else []
    for c in hist:
        if not isinstance(c.get("ops"), list):
            c["ops"] = []
        for op in c["ops"]:
            if not isinstance(op.get("lines"), list):
                op["lines"] = []
    via = "cli" if rnd.randrange(10) == 0 else "api"
    return {"case": "tlc-" + h, "input": {"via": via, "cwd": "", "history": hist}}


def nontrivial(rec):
    # a history whose final tree has a reported comment
    return bool(rec.get("observed", {}).get("details"))


def extra_evidence(records):
    def n(pred):
        return sum(1 for r in records if pred(r))
    return {
        "histories_via_cli": n(lambda r: r["input"]["via"] == "cli"),
        "histories_run_from_a_subdirectory": n(lambda r: r["input"]["cwd"] != ""),
        "histories_with_a_rename": n(lambda r: any(op["op"] == "rename" for c in r["input"]["history"] for op in c["ops"])),
        "histories_with_a_move": n(lambda r: any(op["op"] == "move" for c in r["input"]["history"] for op in c["ops"])),
        "todos_reported": sum(len(r["observed"]["details"]) for r in records),
        "log_lines_recorded": sum(len(r["observed"]["logs"]) for r in records),
        "panics_observed": n(lambda r: r["observed"]["panic"]),
    }
