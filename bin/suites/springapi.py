"""Spring API scan suite (C12; C07 API part)."""

TRACE = ("SpringApi_Trace", "SpringApi_Trace.cfg")
PROPS = ["C12_EntriesExact", "C12_OwnClass", "C07_NoCarryOver"]


def plan(pid, tier, seed):
    quick = tier == "quick"
    if quick:
        mc = [
            {"module": "SpringApi", "cfg": "SpringApi_MC_quick.cfg", "emit": True, "sample": 600, "properties": PROPS, "timeout": 600},
            {"module": "SpringApi", "cfg": "SpringApi_Gen.cfg", "emit": True, "sample": 800, "properties": PROPS, "timeout": 600},
        ]
    else:
        mc = [
            {"module": "SpringApi", "cfg": "SpringApi_MC_thorough.cfg", "emit": True, "sample": 12000, "properties": PROPS, "timeout": 3000},
            {"module": "SpringApi", "cfg": "SpringApi_Gen.cfg", "emit": True, "sample": 24000, "properties": PROPS, "timeout": 1800},
        ]
    if quick and pid == "C07":     # C07 only needs the multi-run histories
        mc = [dict(mc[1], sample=1000)]
    return {
        "harness": "springapi",
        "needs_coca": True,       # a quarter of the cases also go through `coca analysis` + `coca api -f` (api.csv)
        "mc": mc,
        "gen": [],
        "rand": 300 if quick else 6000,
        "run_timeout": 6000,      # half of the command-line cases serve two projects one after the other: the replay takes longer
        "trace": TRACE,
    }


def case_from_tlc(obj, h, g):
    files = obj["files"]
    for i, f in enumerate(files):      # every fourth file implements a project interface declaring the same method names
        f["impl"] = (int(h[2 * i:2 * i + 2], 16) % 4 == 0)
    n = len(files)
    if n == 1:
        runs = [[1], [1]]                      # the same analysis twice in one process
        fresh = [False, False]
    else:
        # every order and every sub-/superset of the pair, plus a repetition, in ONE process
        runs = [[1, 2], [2, 1], [2], [1], [1, 2]]
        fresh = [False, True, True, False, False]       # other orders / subsets also in fresh processes
    cli = int(h[-2:], 16) % 2 == 0 and not any(f["impl"] for f in files)
    return {"case": "tlc-" + h, "files": files, "runs": runs, "fresh": fresh, "layout": int(h[:6], 16) % 1000, "cli": cli}


def nontrivial(rec):
    return any(m["kind"] == "handler" for f in rec["files"] for m in f["members"])
