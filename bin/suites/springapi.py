"""Spring API scan suite (C12; C07 API part)."""

TRACE = ("SpringApi_Trace", "SpringApi_Trace.cfg")


def plan(pid, tier, seed):
    quick = tier == "quick"
    return {
        "harness": "springapi",
        "mc": [],
        "gen": [],
        "rand": 300 if quick else 6000,
        "trace": TRACE,
    }


def nontrivial(rec):
    return any(m["kind"] == "handler" for f in rec["files"] for m in f["members"])
