"""C09: every pass completes without crashing on any valid Java source (shape enumeration + rewritten fixtures)."""

TRACE = ("JavaShapes_Trace", "JavaShapes_Trace.cfg")


def plan(pid, tier, seed):
    quick = tier == "quick"
    mc = [{"module": "JavaShapes", "cfg": "JavaShapes_MC_quick.cfg" if quick else "JavaShapes_MC_thorough.cfg", "emit": True,
           "sample": 900 if quick else 70000, "properties": ["C09_ShapeSpace"], "timeout": 1800}]
    return {"harness": "javashapes", "mc": mc, "gen": [], "rand": 150 if quick else 3000, "trace": TRACE}


def case_from_tlc(obj, h, g):
    return {"case": "tlc-" + h, "features": sorted(obj["features"]), "project": obj["project"], "fixture": "", "rewrite": "none"}


def nontrivial(rec):
    return rec.get("valid", False) and (len(rec.get("features", [])) >= 2 or rec.get("fixture", "") != "")


def extra_evidence(records):
    """how many units were inside the quantifier (valid for the shipped grammar), by kind"""
    out = {}
    for r in records:
        k = ("fixture:" + r["rewrite"]) if r.get("fixture") else "features"
        d = out.setdefault(k, {"valid": 0, "invalid": 0})
        d["valid" if r.get("valid") else "invalid"] += 1
    return out
