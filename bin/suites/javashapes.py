"""C09: every pass completes without crashing on any valid Java source (shape enumeration + rewritten fixtures)."""

import os
import subprocess
import sys

import vcore as V

TRACE = ("JavaShapes_Trace", "JavaShapes_Trace.cfg")


def grammar_module():
    """spec/JavaGrammar.tla regenerated from the grammar of the tree under test (the committed copy is for readers)"""
    d = V.workdir("javagrammar")
    out = os.path.join(d, "JavaGrammar.tla")
    g = os.path.join(V.REPO, "languages", "java")
    r = subprocess.run([sys.executable, os.path.join(V.VERIF, "bin", "g4tla.py"), os.path.join(g, "JavaParser.g4"),
                        os.path.join(g, "JavaLexer.g4"), out], capture_output=True, text=True)
    if r.returncode != 0:
        raise V.NoVerdict("cannot translate the shipped grammar to TLA+: " + (r.stderr or r.stdout)[-500:])
    return out


def plan(pid, tier, seed):
    quick = tier == "quick"
    mc = [{"module": "JavaShapes", "cfg": "JavaShapes_MC_quick.cfg" if quick else "JavaShapes_MC_thorough.cfg", "emit": True,
           "sample": 600 if quick else 40000, "properties": ["C09_ShapeSpace"], "timeout": 1800}]
    # random leftmost derivations of the shipped grammar (TLC simulation of the derivation machine)
    gen = [{"module": "JavaDerive", "cfg": "JavaDerive_Sim.cfg", "simulate": 2500 if quick else 12000, "depth": 4000,
            "workers": 1 if quick else 8, "extra_files": [grammar_module()], "deadlock": False, "timeout": 3000}]
    return {"harness": "javashapes", "mc": mc, "gen": gen, "rand": 150 if quick else 3000, "trace": TRACE}


def case_from_tlc(obj, h, g):
    if "tokens" in obj:
        return {"case": "drv-" + h, "features": [], "project": "sandwich" if int(h[:2], 16) % 4 == 0 else "single", "fixture": "",
                "rewrite": "none", "ctx": obj["ctx"], "tokens": obj["tokens"], "comment": obj["comment"]}
    return {"case": "tlc-" + h, "features": sorted(obj["features"]), "project": obj["project"], "fixture": "", "rewrite": "none"}


def nontrivial(rec):
    return rec.get("valid", False) and (len(rec.get("features", [])) >= 2 or rec.get("fixture", "") != "" or rec.get("ntokens", 0) >= 12)


def extra_evidence(records):
    """how many units were inside the quantifier (valid for the shipped grammar), by kind"""
    out = {}
    for r in records:
        k = ("fixture:" + r["rewrite"]) if r.get("fixture") else ("derived:" + r.get("ctx", "")) if r.get("ntokens") else "features"
        d = out.setdefault(k, {"valid": 0, "invalid": 0})
        d["valid" if r.get("valid") else "invalid"] += 1
    return out
