"""moveclass suite (extension X01): the move-class refactoring (`coca refactor -m move.config -p DIR`): the target file is
the original with its package line rewritten, every import line naming the moved class is rewritten in every other file,
every other byte of every file is unchanged, several moves compose, tables of two runs do not mix.

Machine spec/X01MoveClass.tla (New / Analysis file loop / scanner loop: copyClass, updatePackageInfo, updateImportSide,
updateFile, with the package-level nodes / configPath / moveConfig as registers) is model-checked against the Reference
spec/X01MoveClassRef.tla; every history TLC explored is replayed on the real code (each in a fresh process), plus seeded
random wider projects; spec/X01MoveClass_Trace.tla judges the observations.
"""

TRACE = ("X01MoveClass_Trace", "X01MoveClass_Trace.cfg")
PROPS = ["X01_MovedExactly", "X01_NoCrash", "X01_OtherProjectsUntouched", "X01_TablesNotMixed"]


def plan(pid, tier, seed):
    quick = tier == "quick"
    if quick:
        mc = [
            # layout (star-shaped): 857 histories, 11 141 states; all replayed
            {"module": "X01MoveClass", "cfg": "X01MoveClass_MC_quick.cfg", "emit": True, "sample": None, "properties": PROPS, "timeout": 900},
            # which classes exist / who imports whom / 1..2 moves in either order: 1 120 histories, all replayed
            {"module": "X01MoveClass", "cfg": "X01MoveClass_MC_multi.cfg", "emit": True, "sample": None, "properties": PROPS, "timeout": 900},
            # one or two projects in one process, Analysis once or twice: 272 histories, all replayed
            {"module": "X01MoveClass", "cfg": "X01MoveClass_MC_pair.cfg", "emit": True, "sample": None, "properties": PROPS, "timeout": 900},
        ]
    else:
        mc = [
            {"module": "X01MoveClass", "cfg": "X01MoveClass_MC_quick.cfg", "emit": True, "sample": None, "properties": PROPS, "timeout": 900},
            # layout (product): 25 920 histories
            {"module": "X01MoveClass", "cfg": "X01MoveClass_MC_thorough.cfg", "emit": True, "sample": None, "properties": PROPS,
             "timeout": 3600, "coverage": True},
            {"module": "X01MoveClass", "cfg": "X01MoveClass_MC_multi.cfg", "emit": True, "sample": None, "properties": PROPS, "timeout": 900},
            {"module": "X01MoveClass", "cfg": "X01MoveClass_MC_pair.cfg", "emit": True, "sample": None, "properties": PROPS, "timeout": 900},
        ]
    return {
        "harness": "moveclass",
        "needs_coca": True,
        "mc": mc,
        "gen": [],
        "rand": 1500 if quick else 25000,
        "trace": TRACE,
        "run_timeout": 6000,
    }


def _seq(v):
    return v if isinstance(v, list) else []


def case_from_tlc(obj, h, g):
    """The history exactly as TLC explored it (ToJson writes an empty sequence as [] and an empty record as {})."""
    projects = []
    for p in _seq(obj["input"].get("projects")):
        files = []
        for f in _seq(p.get("files")):
            files.append({"pkg": f["pkg"], "name": f["name"], "eol": f["eol"], "final": f["final"], "lines": _seq(f.get("lines"))})
        projects.append({"files": files, "dirs": _seq(p.get("dirs")), "moves": _seq(p.get("moves")), "analyses": p["analyses"]})
    return {"case": "tlc-" + h, "input": {"via": "api", "projects": projects}}


def nontrivial(rec):
    # a history with at least one move whose class is imported somewhere
    for p in rec["input"]["projects"]:
        froms = {m["from"] for m in p["moves"]}
        if any(l["k"] == "import" and l["name"] in froms for f in p["files"] for l in f["lines"]):
            return True
    return False


def extra_evidence(records):
    def n(pred):
        return sum(1 for r in records if pred(r))
    files = sum(len(p["files"]) for r in records for p in r["input"]["projects"])
    return {"histories_with_two_projects": n(lambda r: len(r["input"]["projects"]) > 1),
            "histories_with_analysis_twice": n(lambda r: any(p["analyses"] > 1 for p in r["input"]["projects"])),
            "histories_with_several_moves": n(lambda r: any(len(p["moves"]) > 1 for p in r["input"]["projects"])),
            "histories_with_crlf_file": n(lambda r: any(f["eol"] == "\r\n" for p in r["input"]["projects"] for f in p["files"])),
            "histories_with_file_without_final_newline": n(lambda r: any(not f["final"] for p in r["input"]["projects"] for f in p["files"])),
            "histories_via_cli": n(lambda r: r["input"].get("via") == "cli"),
            "files_rendered": files,
            "processes_died": n(lambda r: r["observed"]["panic"])}
