"""unusedclasses suite (extension X06): unusedclasses.Refactoring(parsedDeps): exactly the classes of the model that no
OTHER class calls (a call of a class to itself is not a use; class-level calls and calls from inner structures are
recorded calls), each once under package "." Name, in ascending byte order, the same list when asked again.

Machine spec/X06UnusedClasses.tla (the two loops of Refactoring with sourceClasses / targetClasses / excludePackage as
registers, the map iteration as a free choice of order, sort.Strings) is model-checked against the Reference
spec/X06UnusedClassesRef.tla; the models TLC explored are replayed on the real code (in-process; a share rendered as a
Java project and analysed by the real passes; a share analysed by the coca binary and read back from deps.json), plus
seeded random wider models; spec/X06UnusedClasses_Trace.tla judges the observations. No command reaches the function.
"""
import random

TRACE = ("X06UnusedClasses_Trace", "X06UnusedClasses_Trace.cfg")
PROPS = ["X06_Exact", "X06_Once", "X06_Sorted", "X06_Tables", "X06_ExcludeOnce"]

# TLC's pool names -> Java-conventional names for the rendered routes
JAVA_PKG = {"": "", "x": "com.acme.shop", "x.y": "com.acme.shop.util"}
JAVA_NAME = {"y": "Order", "Z": "Cart", "Out": "Outside"}


def plan(pid, tier, seed):
    quick = tier == "quick"
    M = "X06UnusedClasses"
    if quick:
        mc = [
            # 159 588 states: 25 761 models, sampled
            {"module": M, "cfg": M + "_MC_quick.cfg", "emit": True, "sample": 2500, "properties": PROPS, "timeout": 900},
            # namesakes / default package: 103 804 states, 14 521 models, sampled
            {"module": M, "cfg": M + "_MC_names.cfg", "emit": True, "sample": 1500, "properties": PROPS, "timeout": 600},
        ]
    else:
        mc = [
            {"module": M, "cfg": M + "_MC_quick.cfg", "emit": True, "sample": None, "properties": PROPS, "timeout": 1800},
            # two calls in a function: 1 227 204 states, 201 153 models, sampled
            {"module": M, "cfg": M + "_MC_pair.cfg", "emit": True, "sample": 20000, "properties": PROPS, "timeout": 1800},
            {"module": M, "cfg": M + "_MC_names.cfg", "emit": True, "sample": None, "properties": PROPS, "timeout": 900},
            # 3 entries: 447 116 states, 65 641 models
            {"module": M, "cfg": M + "_MC_thorough.cfg", "emit": True, "sample": 20000, "properties": PROPS, "timeout": 1800, "coverage": True},
            # wide entries: 3 830 902 states, 637 603 models, sampled
            {"module": M, "cfg": M + "_MC_wide.cfg", "emit": True, "sample": 20000, "properties": PROPS, "timeout": 3600},
        ]
    return {
        "harness": "unusedclasses",
        "needs_coca": True,
        "mc": mc,
        "gen": [],
        "rand": 1500 if quick else 20000,
        "trace": TRACE,
        "run_timeout": 6000,
    }


def _java(ref):
    return {"pkg": JAVA_PKG.get(ref["pkg"], ref["pkg"]), "name": JAVA_NAME.get(ref["name"], ref["name"])}


def case_from_tlc(obj, h, g):
    """The model TLC explored. By hash: 80 % handed to the real code as structs, 14 % rendered as a Java project and
    analysed by the real identifier + full passes, 6 % analysed by the coca binary (deps.json read back). A model with the
    same class listed twice stays a struct model (one file per class)."""
    inp = obj["input"]
    rnd = random.Random(int(h, 16))
    deps = inp["deps"] if isinstance(inp.get("deps"), list) else []
    for d in deps:
        for k in ("field", "fns", "inner"):
            if not isinstance(d.get(k), list):
                d[k] = []
        d["fns"] = [f if isinstance(f, list) else [] for f in d["fns"]]
    k = rnd.randrange(50)
    via = "java" if k < 7 else ("cli" if k < 10 else "model")
    fulls = [(d["pkg"], d["name"]) for d in deps]
    if via != "model" and len(set(fulls)) == len(fulls):
        deps = [dict(_java(d), field=[_java(c) for c in d["field"]], fns=[[_java(c) for c in f] for f in d["fns"]],
                     inner=[_java(c) for c in d["inner"]]) for d in deps]
    else:
        via = "model"
    return {"case": "tlc-" + h, "input": {"via": via, "deps": deps}}


def nontrivial(rec):
    # a model with at least one recorded call
    return any(d["field"] or d["inner"] or any(d["fns"]) for d in rec.get("model", []))


def extra_evidence(records):
    def has_self(r):
        return any((c["pkg"], c["name"]) == (d["pkg"], d["name"]) for d in r["model"] for f in d["fns"] for c in f)
    return {"models_via_java": sum(1 for r in records if r["input"]["via"] == "java"),
            "models_via_cli": sum(1 for r in records if r["input"]["via"] == "cli"),
            "models_with_a_self_call": sum(1 for r in records if has_self(r)),
            "models_with_a_class_level_call": sum(1 for r in records if any(d["field"] for d in r["model"])),
            "models_with_an_inner_structure": sum(1 for r in records if any(d["innerNames"] for d in r["model"])),
            "models_with_a_class_listed_twice": sum(1 for r in records if len({(d["pkg"], d["name"]) for d in r["model"]}) < len(r["model"])),
            "nonempty_results": sum(1 for r in records if r["observed"]["result"]),
            "panics_observed": sum(1 for r in records if r["observed"]["panic"])}
