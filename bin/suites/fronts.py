"""Go / Python front-end suite (C20): every declaration listed exactly once under its own name.

Machine  spec/Fronts.tla     (ast.Inspect visitor of ast_go + PythonIdentListener, one action per callback)
Reference spec/FrontsRef.tla (Diff = the only oracle), harness cmd/fronts (render -> real front-ends -> project).
"""
import json

TRACE = ("Fronts_Trace", "Fronts_Trace.cfg")
PROPS = ["C20_NoCrash", "C20_GoDeclsExact", "C20_PyDeclsExact", "C20_GoMapOwnNames", "C20_PyNoStaleClass"]


def plan(pid, tier, seed):
    quick = tier == "quick"
    if quick:
        mc = [
            {"module": "Fronts", "cfg": "Fronts_MC_quick.cfg", "emit": True, "sample": 1800, "properties": PROPS, "timeout": 600},
            {"module": "Fronts", "cfg": "Fronts_MC_bodies.cfg", "emit": True, "sample": 1500, "properties": PROPS, "timeout": 600},
        ]
    else:
        mc = [
            {"module": "Fronts", "cfg": "Fronts_MC_quick.cfg", "emit": True, "sample": 12000, "properties": PROPS, "timeout": 900, "coverage": True},
            {"module": "Fronts", "cfg": "Fronts_MC_bodies.cfg", "emit": True, "sample": 12000, "properties": PROPS, "timeout": 900, "coverage": True},
            {"module": "Fronts", "cfg": "Fronts_MC_thorough.cfg", "emit": True, "sample": 22000, "properties": PROPS, "timeout": 3000, "heap": "12g"},
            {"module": "Fronts", "cfg": "Fronts_MC_py_thorough.cfg", "emit": True, "sample": 18000, "properties": PROPS, "timeout": 3000, "heap": "12g"},
            {"module": "Fronts", "cfg": "Fronts_MC_py_wide.cfg", "emit": True, "sample": 15000, "properties": PROPS, "timeout": 3000, "heap": "12g"},
            {"module": "Fronts", "cfg": "Fronts_MC_bodies_wide.cfg", "emit": True, "sample": 18000, "properties": PROPS, "timeout": 3000, "heap": "12g"},
        ]
    return {
        "harness": "fronts",
        "needs_coca": False,
        "mc": mc,
        "gen": [],
        "rand": 700 if quick else 20000,
        "trace": TRACE,
        "run_timeout": 3000,
    }


def case_from_tlc(obj, h, g):
    # obj = {"input": {"lang", "files": [file]}, "machine": FileObs of the Machine}
    return {"case": "tlc-" + h, "input": obj["input"], "machine": obj.get("machine")}


def _decls(rec):
    n = 0
    for f in rec["input"]["files"]:
        n += len(f.get("decls") or []) + len(f.get("items") or [])
    return n


def nontrivial(rec):
    # at least two declarations / statements (one declaration cannot be confused with another)
    return _decls(rec) >= 2


# ---- informational only (never affects the verdict): how often the real code's own parser accepted the rendered
# ---- text, and Machine-vs-code drift on the TLC-generated cases (the Machine's output travels with the case)

def _canon_fn(f):
    return {"name": f["name"], "params": [[p["name"], p["type"]] for p in f.get("params", [])],
            "decos": list(f.get("decos", [])), "calls": [[c["node"], c["fn"]] for c in f.get("calls", [])]}


def _canon(o):
    return {
        "panic": bool(o.get("panic")),
        "imports": [[i["source"], i.get("as", ""), list(i.get("usage", []))] for i in o.get("imports", [])],
        "types": sorted(({"name": t["name"], "props": [[p["name"], p["type"]] for p in t.get("props", [])],
                          "decos": list(t.get("decos", [])), "methods": [_canon_fn(m) for m in t.get("methods", [])]}
                         for t in o.get("types", [])), key=lambda t: json.dumps(t, sort_keys=True)),
        "funcs": [_canon_fn(f) for f in o.get("funcs", [])],
        "members": [[m["id"], m["type"]] for m in o.get("members", [])],
    }


def extra_evidence(records):
    acc = {"go": [0, 0], "py": [0, 0]}
    drift, compared, examples = 0, 0, []
    langs = {"go": 0, "py": 0}
    for r in records:
        lang = r["input"]["lang"]
        langs[lang] = langs.get(lang, 0) + 1
        for fo in r["observed"]["files"]:
            acc[lang][0 if fo.get("accepts") else 1] += 1
        m = r.get("machine")
        if m and len(r["observed"]["files"]) == 1:
            compared += 1
            if _canon(m) != _canon(r["observed"]["files"][0]):
                drift += 1
                if len(examples) < 3:
                    examples.append(r.get("case"))
    return {
        "records_by_language": langs,
        "files_accepted_by_the_front_ends_own_parser": {k: {"accepted": v[0], "rejected": v[1]} for k, v in acc.items()},
        "machine_vs_code": {"compared": compared, "DRIFT": drift, "examples": examples,
                            "note": "informational: the Machine's own output for a TLC-generated file compared with the real "
                                    "front-end's (order of types ignored); the verdict never depends on it"},
    }
