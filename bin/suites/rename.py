"""Method-rename refactoring suite (C05)."""

TRACE = ("Rename_Trace", "Rename_Trace.cfg")
PROPS = ["C05_AllSitesOnlySites", "C05_LengthAccounting", "C05_Terminates"]


def plan(pid, tier, seed):
    quick = tier == "quick"
    mc = [{"module": "Rename", "cfg": "Rename_MC.cfg" if quick else "Rename_MC_thorough.cfg", "emit": True,
           "sample": 270 if quick else 5000, "properties": PROPS, "timeout": 900}]
    return {
        "harness": "rename",
        "mc": mc,
        "gen": [],
        "rand": 1200 if quick else 8000,
        "trace": TRACE,
    }


def _lit(text):
    return {"k": "lit", "text": text, "recvKind": "", "recv": "", "callee": "", "args": [], "type": ""}


def _call(callee, args=None):
    return {"k": "call", "text": "", "recvKind": "none", "recv": "", "callee": callee, "args": args or [], "type": ""}


def case_from_tlc(obj, h, g):
    """A TLC layout (cells of one line) becomes a class whose method `caller` contains ONE statement line
    sink(<cell>, <cell>, ...): site cells are calls of the method to rename, filler cells are literals
    (the wider ones contain multi-byte characters)."""
    args = []
    for c in obj["cells"]:
        if c["site"]:
            args.append(_call("run"))
        else:
            args.append(_lit("7" if c["w"] == 1 else "\"é注\""))
    new = {1: "z", 3: "abc"}.get(obj["newLen"], "abcdefgh"[: obj["newLen"]])
    member = lambda name, body: {"kind": "method", "name": name, "type": "void", "params": [], "mods": ["public"], "anns": [],
                                 "generic": "", "body": body, "sameLine": False}
    stmt = {"k": "expr", "type": "", "name": "", "then": [], "els": [], "cases": [], "e": _call("sink", args)}
    f = {"id": "f1", "pathKind": "main", "dirs": "p", "pkg": "p", "imports": [],
         "unit": {"kind": "class", "name": "K", "tparams": "", "ext": "", "extq": "", "impls": [], "anns": [],
                  "members": [member("run", []), member("caller", [stmt]), member("sink", [])]}}
    # one layout in four is renamed after the same process has renamed the method to a temporary name and back
    return {"case": "tlc-" + h, "files": [f], "layout": 0, "req": {"pkg": "p", "cls": "K", "old": "run", "new": new},
            "thereAndBack": int(h[:2], 16) % 4 == 0}


def nontrivial(rec):
    return rec.get("nsites", 0) >= 2
