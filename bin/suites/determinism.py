"""C08: identical input yields identical output on every run (N repeated executions; map-order Machine)."""

TRACE = ("Determinism_Trace", "Determinism_Trace.cfg")


def plan(pid, tier, seed):
    quick = tier == "quick"
    mc = [{"module": "MapOrder_MC", "cfg": c, "properties": ["C08_CollectionInvariant", "C08_PromisedOrderInvariant", "C08_FoldOrderIndependent"], "timeout": 300}
          for c in ("MapOrder_collect.cfg", "MapOrder_sorted_distinct.cfg", "MapOrder_sorted_tied.cfg", "MapOrder_fold_independent.cfg")]
    return {"harness": "determinism", "needs_coca": True, "mc": mc, "gen": [], "rand": 72 if quick else 400, "trace": TRACE, "run_timeout": 3000}


def nontrivial(rec):
    return any(len(r["runs"]) > 1 and len(r["runs"][0]["items"]) >= 2 for r in rec.get("reports", []))


def extra_evidence(records):
    """per report: over how many cases the raw order actually varied between runs (witness that the schedule varied)"""
    out = {}
    for rec in records:
        for r in rec.get("reports", []):
            name = r["name"].rstrip("0123456789-")
            d = out.setdefault(name, {"cases": 0, "cases_with_varying_raw_order": 0, "runs_per_case": rec.get("n", 0)})
            d["cases"] += 1
            if r.get("distinctRaw", 1) > 1:
                d["cases_with_varying_raw_order"] += 1
    return out
