"""evalservice suite (extension X08): the service summary of `coca evaluate` (evaluate.Analyser.Analysis:
LifecycleMap = first camel-case word shared by >= 2 methods of a service, stop words excluded; ReturnTypeMap = functions of
services grouped by a return type that is a project class; RelatedMethod = a group of >= 4 parameter names shared by >= 80%
of the services' functions with >= 4 parameters), over histories of Analysis calls in one process.

Machine spec/X08EvalService.tla (Analysis' scan loop, EvaluateList with the package-level registers serviceNodeMap /
returnTypeMap / longParameterList, Evaluate per service with SplitCamelcase and buildLifecycle loop by loop, the stored
miner result) is model-checked against the Reference spec/X08EvalServiceRef.tla; the histories TLC explored are replayed on
the real code (in-process, a share through rendered Java and the real passes, a share through `coca evaluate`), plus seeded
random wider histories; spec/X08EvalService_Trace.tla judges the observations.
"""
import random

TRACE = ("X08EvalService_Trace", "X08EvalService_Trace.cfg")
PROPS = ["X08_Lifecycle", "X08_ReturnTypes", "X08_Related", "X08_SplitAgrees", "X08_Registers"]


def _mc(name, sample, timeout=900, coverage=False):
    return {"module": "X08EvalService", "cfg": "X08EvalService_MC_%s.cfg" % name, "emit": True, "sample": sample,
            "properties": PROPS, "timeout": timeout, "coverage": coverage}


def plan(pid, tier, seed):
    quick = tier == "quick"
    if quick:
        mc = [
            _mc("quick", 1200),          # lifecycle: 72 700 states, 8 743 models, sampled
            _mc("returns_quick", 500),   # 20 610 states, 2 757 models
            _mc("params_quick", 700),    # 62 942 states, 7 483 models
            _mc("pair_quick", 600),      # two calls in one process: 14 608 states, 1 892 histories
        ]
    else:
        mc = [
            _mc("quick", None), _mc("returns_quick", None), _mc("params_quick", 6000), _mc("pair_quick", None),
            _mc("wide", 8000, timeout=2400), _mc("returns", 8000, timeout=2400), _mc("params", None, timeout=2400),
            _mc("pair", 8000, timeout=2400, coverage=True), _mc("thorough", None, timeout=2400),
        ]
    return {
        "harness": "evalservice",
        "needs_coca": True,
        "mc": mc,
        "gen": [],
        "rand": 1200 if quick else 20000,
        "trace": TRACE,
        "run_timeout": 6000,
    }


def case_from_tlc(obj, h, g):
    """The history TLC explored, handed to the real code in-process; by hash one in 6 through rendered Java and the real
    passes (when every name is a Java identifier that the renderer can write) and one in 25 single calls through the binary."""
    inp = obj["input"]
    rnd = random.Random(int(h, 16))
    calls = inp["calls"] if isinstance(inp.get("calls"), list) else []
    calls = [c if isinstance(c, list) else [] for c in calls]
    for c in calls:
        for cl in c:
            if not isinstance(cl.get("methods"), list):
                cl["methods"] = []
            for m in cl["methods"]:
                if not isinstance(m.get("params"), list):
                    m["params"] = []
    via = "model"
    k = rnd.randrange(150)
    if k < 6 and len(calls) == 1:
        via = "cli"
    elif k < 31 and _java_ok(calls):
        via = "java"
    return {"case": "tlc-" + h, "input": {"via": via, "calls": calls}}


def _java_ok(calls):
    for c in calls:
        seen = set()
        for cl in c:
            if not cl["pkg"] or (cl["pkg"], cl["name"]) in seen:
                return False
            seen.add((cl["pkg"], cl["name"]))
            sigs = set()
            for m in cl["methods"]:
                if m["name"] in ("_", "do", "") or (m["name"], len(m["params"])) in sigs:
                    return False
                sigs.add((m["name"], len(m["params"])))
    return True


def nontrivial(rec):
    # a history in which some call sees a service class with a function
    return any("service" in cl["name"].lower() and cl["methods"] for r in rec.get("runs", []) for cl in r["model"])


def extra_evidence(records):
    def n(pred):
        return sum(1 for r in records if pred(r))
    return {
        "histories_via_java": n(lambda r: r["input"]["via"] == "java"),
        "histories_via_cli": n(lambda r: r["input"]["via"] == "cli"),
        "histories_of_two_or_more_calls": n(lambda r: len(r["runs"]) >= 2),
        "runs_with_lifecycle_words": sum(1 for r in records for x in r["runs"] if x["observed"]["lifecycle"]),
        "runs_with_return_types": sum(1 for r in records for x in r["runs"] if x["observed"]["returns"]),
        "runs_with_related_parameters": sum(1 for r in records for x in r["runs"] if x["observed"]["related"]),
        "panics_observed": sum(1 for r in records for x in r["runs"] if x["observed"]["panic"]),
    }
