"""testsmell suite (C11): the test-smell report contains exactly the findings evidenced in the test sources.

Machine spec/TestSmell.tla (Walk + JavaTestFileFilter, what the full listener keeps of a method, the
IsJunitTest gate, updateMethodCallsForSelfCall, the annotation loop, the call loop threading `hasAssert`
with the `index == last` check, methodCallMap, checkDuplicateAssertTest) is model-checked against the
Reference spec/TestSmellRef.tla; every abstract class TLC explored is wrapped into a tree (production twin,
resources, layout style chosen by hash), rendered to Java and analysed by the real code in a fresh process
(in-process sequence of cmd/tbs.go, or the coca binary), plus seeded random trees from the harness
generator; spec/TestSmell_Trace.tla judges the observations.
"""
import copy
import random

TRACE = ("TestSmell_Trace", "TestSmell_Trace.cfg")
PROPS = ["C11_FindingsExact", "C11_OnlyTestFiles", "C11_FileAttribution", "C11_LoopBounds"]


def plan(pid, tier, seed):
    quick = tier == "quick"
    if quick:
        mc = [
            # every body of <= 3 statements over the 10 evidence symbols x 2 helper shapes (2222 classes)
            {"module": "TestSmell", "cfg": "TestSmell_MC_quick.cfg", "emit": True, "sample": 600, "properties": PROPS, "timeout": 600},
            # 7 annotation shapes x 8 path kinds x 3 helper shapes x bodies of <= 1 statement (1176 classes)
            {"module": "TestSmell", "cfg": "TestSmell_MC_annos_quick.cfg", "emit": True, "sample": 450, "properties": PROPS, "timeout": 600},
            # the 4/5/6 multiplicity family, bodies of <= 6 statements over 3 symbols (1093 classes)
            {"module": "TestSmell", "cfg": "TestSmell_MC_mult_quick.cfg", "emit": True, "sample": 350, "properties": PROPS, "timeout": 600},
        ]
    else:
        mc = [
            {"module": "TestSmell", "cfg": "TestSmell_MC_quick.cfg", "emit": True, "sample": None, "properties": PROPS, "timeout": 1200},
            {"module": "TestSmell", "cfg": "TestSmell_MC_annos.cfg", "emit": True, "sample": None, "properties": PROPS, "timeout": 1800,
             "coverage": True},
            {"module": "TestSmell", "cfg": "TestSmell_MC_mult.cfg", "emit": True, "sample": None, "properties": PROPS, "timeout": 1800},
            # every body of <= 4 statements over 13 symbols x 4 helper shapes (123 764 classes, 12 000 replayed)
            {"module": "TestSmell", "cfg": "TestSmell_MC_thorough.cfg", "emit": True, "sample": 12000, "properties": PROPS, "timeout": 3600},
        ]
    return {
        "harness": "testsmell",
        "needs_coca": True,
        "mc": mc,
        "gen": [],
        "rand": 800 if quick else 8000,
        "trace": TRACE,
        "run_timeout": 6000,
    }


PROD_NAMES = ["Contest", "Calc", "TestUtil", "Latest", "CalcTester"]


def case_from_tlc(obj, h, g):
    """Wrap the one-class input TLC explored into a tree: layout style, sometimes a production twin carrying the
    very same methods (must stay silent), sometimes resources next to it, sometimes through the command line;
    all choices are a deterministic function of the case hash."""
    inp = obj["input"]
    rnd = random.Random(int(h, 16))
    f0 = inp["files"][0]
    files = [f0]
    extras = []
    maven = len(f0["dirs"]) >= 3 and f0["dirs"][:3] == ["src", "test", "java"]
    if rnd.randrange(2) == 0:
        # same package, fields and methods under a name / directory that is no test file
        twin = copy.deepcopy(f0)
        cls = PROD_NAMES[rnd.randrange(len(PROD_NAMES))]
        if cls == f0["cls"]:
            cls = "Plain" + cls
        twin["cls"] = cls
        twin["name"] = cls + ".java"
        if f0["dirs"][:3] == ["src", "test", "java"] or rnd.randrange(3) == 0:
            twin["dirs"] = ["src", "main", "java", "p"]
        files.append(twin)
        if rnd.randrange(2) == 0:
            files.reverse()
    if maven and rnd.randrange(3) == 0:
        extras.append({"dirs": f0["dirs"], "name": "notes.txt"})
    if rnd.randrange(6) == 0:
        extras.append({"dirs": ["src", "test", "resources"], "name": "data.properties"})
    via = "cli" if rnd.randrange(12) == 0 else "api"
    c = {"case": "tlc-" + h,
         "input": {"layout": inp["layout"], "via": via, "rel": rnd.randrange(3) == 0, "style": rnd.randrange(1 << 20), "files": files, "extras": extras}}
    m = obj.get("machine")
    if isinstance(m, dict):
        # the Machine's own report for the class (drift note only, never a verdict)
        c["machine"] = {"panic": bool(m.get("panic")), "file": "/".join(f0["dirs"] + [f0["name"]]),
                        "types": m.get("types") if isinstance(m.get("types"), list) else []}
    return c


def _is_test_method(m):
    return any(a["name"] in ("Test", "Ignore") for a in m["annos"])


def nontrivial(rec):
    # a tree with at least one test method that has a statement
    return any(_is_test_method(m) and m["body"] for f in rec["input"]["files"] for m in f["methods"])


def extra_evidence(records):
    agree = differ = 0
    drift = []
    by_type = {}
    n_methods = 0
    for r in records:
        o = r["observed"]
        for fd in o["findings"]:
            by_type[fd["type"]] = by_type.get(fd["type"], 0) + 1
        n_methods += sum(1 for f in r["input"]["files"] for m in f["methods"] if _is_test_method(m))
        m = r.get("machine")
        if not m:
            continue
        got = [fd["type"] for fd in o["findings"] if fd["file"] == m["file"]]
        if bool(o["panic"]) == m["panic"] and (m["panic"] or got == m["types"]):
            agree += 1
        else:
            differ += 1
            if len(drift) < 5:
                drift.append(r["case"])
    return {"machine_vs_code_same_report": agree, "machine_vs_code_different_report": differ, "DRIFT_examples": drift,
            "findings_observed_by_type": by_type, "test_methods_rendered": n_methods,
            "trees_maven": sum(1 for r in records if r["input"].get("layout") == "maven"),
            "cases_via_cli": sum(1 for r in records if r["input"].get("via") == "cli"),
            "panics_observed": sum(1 for r in records if r["observed"]["panic"])}
