"""git suite: commit-log parsing through the CLI on real repositories (C14) + summaries (C15)."""

TRACE = ("Git_Trace", "Git_Trace.cfg")


def plan(pid, tier, seed):
    quick = tier == "quick"
    return {
        "harness": "gitlog",
        "needs_coca": True,
        "mc": [],
        "gen": [],
        "rand": 240 if quick else 5000,
        "trace": TRACE,
    }


def nontrivial(rec):
    return sum(len(c["ops"]) for c in rec["history"]) >= 2
