"""git suite: commit-log parsing through the CLI on real repositories (C14) + summaries (C15)."""

TRACE = ("Git_Trace", "Git_Trace.cfg")
PROPS = ["C14_BlockExact", "C14_NoChangeMigrates"]


def plan(pid, tier, seed):
    quick = tier == "quick"
    if quick:
        mc = [{"module": "GitLog", "cfg": "GitLog_MC_quick.cfg", "emit": True, "sample": 500, "properties": PROPS, "timeout": 600}]
    else:
        mc = [{"module": "GitLog", "cfg": "GitLog_MC_thorough.cfg", "emit": True, "sample": 12000, "properties": PROPS, "timeout": 1800}]
    return {
        "harness": "gitlog",
        "needs_coca": True,
        "mc": mc,
        "gen": [],
        "rand": 240 if quick else 5000,
        "trace": TRACE,
    }


def case_from_tlc(obj, h, g):
    # every TLC history is built with real git and parsed through the CLI
    # the order in which the five summaries are requested on the parsed list is a permutation picked by the case hash
    names = ["team", "top", "basic", "age", "changelog"]
    order = []
    k = int(h[:8], 16)
    if k % 2 == 1:
        k //= 2
        pool = list(names)
        while pool:
            order.append(pool.pop(k % len(pool)))
            k //= 5
        if k % 3 == 0:
            order.append(names[k % 5])
    return {"case": "tlc-" + h, "mode": "real", "history": obj["history"], "order": order, "decoy": int(h[8:10], 16) % 4 == 0}


def nontrivial(rec):
    return sum(len(c["ops"]) for c in rec["history"]) >= 2
