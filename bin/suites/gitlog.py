"""git suite: commit-log parsing through the CLI on real repositories (C14) + summaries (C15)."""

TRACE = ("Git_Trace", "Git_Trace.cfg")
PROPS = ["C14_BlockExact", "C14_NoChangeMigrates"]


def plan(pid, tier, seed):
    quick = tier == "quick"
    if quick:
        mc = [{"module": "GitLog", "cfg": "GitLog_MC_quick.cfg", "emit": True, "sample": 500, "properties": PROPS, "timeout": 600}]
    else:
        mc = [{"module": "GitLog", "cfg": "GitLog_MC_thorough.cfg", "emit": True, "sample": 12000, "properties": PROPS, "timeout": 1800}]
    return {
        "harness": "gitlog",
        "needs_coca": True,
        "mc": mc,
        "gen": [],
        "rand": 240 if quick else 5000,
        "trace": TRACE,
    }


def case_from_tlc(obj, h, g):
    # every TLC history is built with real git and parsed through the CLI
    return {"case": "tlc-" + h, "mode": "real", "history": obj["history"]}


def nontrivial(rec):
    return sum(len(c["ops"]) for c in rec["history"]) >= 2
