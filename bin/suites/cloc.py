"""cloc suite (C16): per-directory line counts add up and agree with the whole-tree count; top-file report.

Machine spec/Cloc.tla (cmd/cloc.go as a sequence of engine runs sharing the process-global option registers,
BuildLanguageMap / BuildClocCsvData, SortLangeByCode + console tables) is model-checked against the Reference
spec/ClocRef.tla; every tree TLC explored is a replay case for the real coca binary (both commands are run on
every tree: `cloc DIR --by-directory`, `cloc DIR --top-file --top-size N`, one OS process per command), plus
seeded random trees from the harness generator; spec/Cloc_Trace.tla judges the observations.
"""
import random

TRACE = ("Cloc_Trace", "Cloc_Trace.cfg")
PROPS_ALL = ["C16_RowPerDirectory", "C16_CellsExact", "C16_SummaryIsSum", "C16_AgreesWithBase",
             "C16_RunTargetsCurrentDir", "C16_TopSortedTruncated", "C16_TopJsonExact"]


def plan(pid, tier, seed):
    quick = tier == "quick"
    if quick:
        mc = [
            {"module": "Cloc", "cfg": "Cloc_MC_quick.cfg", "emit": True, "sample": 300, "properties": PROPS_ALL, "timeout": 600},
            {"module": "Cloc", "cfg": "Cloc_MC_top_quick.cfg", "emit": True, "sample": 200, "properties": PROPS_ALL, "timeout": 600},
        ]
    else:
        mc = [
            {"module": "Cloc", "cfg": "Cloc_MC_quick.cfg", "emit": True, "sample": 1500, "properties": PROPS_ALL, "timeout": 1800,
             "coverage": True},
            {"module": "Cloc", "cfg": "Cloc_MC_thorough.cfg", "emit": True, "sample": 3000, "properties": PROPS_ALL, "timeout": 3600},
            {"module": "Cloc", "cfg": "Cloc_MC_wide.cfg", "emit": True, "sample": 2500, "properties": PROPS_ALL, "timeout": 3600},
            {"module": "Cloc", "cfg": "Cloc_MC_top_thorough.cfg", "emit": True, "sample": 2000, "properties": PROPS_ALL,
             "timeout": 3600, "coverage": True},
            {"module": "Cloc", "cfg": "Cloc_MC_top_wide.cfg", "emit": True, "sample": 1500, "properties": PROPS_ALL, "timeout": 3600},
        ]
    return {
        "harness": "cloc",
        "needs_coca": True,
        "mc": mc,
        "gen": [],
        "rand": 400 if quick else 3000,
        "trace": TRACE,
        "run_timeout": 6000,
    }


def case_from_tlc(obj, h, g):
    """The tree TLC explored; both commands are run on it. The file layout (interleaving of line kinds,
    comment style, final newline) is varied deterministically by the case hash - it is not part of the
    abstract input the Reference reads."""
    inp = obj["input"]
    rnd = random.Random(int(h, 16))
    for k in ("ext", "dirs", "files"):
        if not isinstance(inp.get(k), list):
            inp[k] = []
    for f in inp["files"]:
        f["lay"] = rnd.randrange(1, 1000) if rnd.randrange(4) else 0
    inp["modes"] = ["bydir", "top"]
    inp["prior"] = inp.get("root") != "." and rnd.randrange(4) == 0   # the report directory of an earlier run is still there
    return {"case": "tlc-" + h, "input": inp}


IGNORED = {".git", ".svn", ".hg", ".idea", "coca_reporter"}


def nontrivial(rec):
    # at least two report rows, or at least two counted files of one language
    i = rec["input"]
    rows = [d for d in i["dirs"] if d not in IGNORED]
    langs = {}
    for f in i["files"]:
        langs[f["lang"]] = langs.get(f["lang"], 0) + 1
    return len(rows) >= 2 or any(n >= 2 for n in langs.values())


def extra_evidence(records):
    n_dirs = sum(len(r["input"]["dirs"]) for r in records)
    n_files = sum(len(r["input"]["files"]) for r in records)
    n_rows = sum(len(r["observed"]["bydir"]["csv"]["rows"]) for r in records)
    n_tab = sum(len(r["observed"]["top"]["tables"]) for r in records)
    return {
        "sub_directories_rendered": n_dirs, "files_rendered": n_files,
        "csv_rows_observed": n_rows, "console_tables_observed": n_tab,
        "trees_with_ignored_dirs": sum(1 for r in records if any(d in IGNORED for d in r["input"]["dirs"])),
        "trees_with_two_or_more_rows": sum(1 for r in records if len([d for d in r["input"]["dirs"] if d not in IGNORED]) >= 2),
        "trees_with_include_ext": sum(1 for r in records if r["input"]["ext"]),
        "trees_dir_passed_with_separator_or_dot": sum(1 for r in records if "/" in r["input"]["root"] or r["input"]["root"] == "."),
        "trees_more_than_5_languages": sum(1 for r in records if len({f["lang"] for f in r["input"]["files"]}) > 5),
        "panics_observed": sum(1 for r in records if r["observed"]["panic"]),
    }
