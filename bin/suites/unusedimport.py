"""Unused-import removal suite (C06)."""

TRACE = ("UnusedImport_Trace", "UnusedImport_Trace.cfg")
PROPS = ["C06_OnlyUnusedImportLinesDeleted", "C06_Idempotent", "C06_NothingElseDeleted", "C06_Terminates"]


def plan(pid, tier, seed):
    quick = tier == "quick"
    mc = [{"module": "UnusedImport", "cfg": "UnusedImport_MC_quick.cfg" if quick else "UnusedImport_MC_thorough.cfg", "emit": True,
           "sample": 800 if quick else 20000, "properties": PROPS, "timeout": 1800}]
    return {
        "harness": "unusedimport",
        "mc": mc,
        "gen": [],
        "rand": 1200 if quick else 8000,
        "trace": TRACE,
    }


def case_from_tlc(obj, h, g):
    """A TLC directory (files = sequences of line kinds U/K/W/O) becomes Java files whose header between the package
    line and the class has exactly those lines: U unused import, K import used as a field type, W wildcard import,
    O a comment or blank line."""
    files = []
    for fi, kinds in enumerate(obj["files"]):
        imports, members, before = [], [], ""
        for li, k in enumerate(kinds):
            if k == "O":
                before += "// note %d\n" % li if li % 2 == 0 else "\n"
                continue
            if k == "U":
                imp = {"pkg": "unused.pkg", "name": "Orphan%d_%d" % (fi, li), "static": False, "before": before}
            elif k == "K":
                name = "Used%d_%d" % (fi, li)
                imp = {"pkg": "ext.lib", "name": name, "static": False, "before": before}
                members.append({"kind": "field", "name": "f%d" % li, "type": name, "params": [], "mods": ["private"], "anns": [],
                                "generic": "", "body": [], "sameLine": False, "throws": []})
            else:
                imp = {"pkg": "java.io" if li % 2 else "ext.lib.sub%d" % li, "name": "*", "static": False, "before": before}
            before = ""
            imports.append(imp)
        files.append({"id": "f%d" % (fi + 1), "pathKind": "main", "dirs": "p", "pkg": "p", "imports": imports,
                      "unit": {"kind": "class", "name": "K%d" % (fi + 1), "tparams": "", "ext": "", "extq": "", "impls": [], "anns": [],
                               "members": members}})
    # one directory in five is written with CRLF line ends, one in seven without a final line break
    return {"case": "tlc-" + h, "files": files, "layout": 0, "crlf": int(h[:2], 16) % 5 == 0, "noFinal": int(h[2:4], 16) % 7 == 0}


def nontrivial(rec):
    return rec.get("unused", 0) >= 1 and rec.get("nfiles", 0) >= 2
