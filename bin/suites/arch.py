"""Architecture graph suite (C13): ArchApp.Analysis, MergeHeaderFile, ToMapDot, `coca arch`.

Machine: spec/Arch.tla (EXTENDS ArchRef). Reference / oracle: spec/ArchRef.tla via Arch_Trace.
Cases: every abstract input explored by TLC in the emitting cfgs (sampled in the quick tier), seeded random
models from the harness, and a few fixed regression shapes. One case in six of the TLC cases (and one in
four of the random ones) is executed through the coca binary (`coca arch -x .. -H -P`), the others in process.
"""

TRACE = ("Arch_Trace", "Arch_Trace.cfg")
PROPS = ["C13_NodesExact", "C13_EdgesExact", "C13_QuotientExact", "C13_DotEdgesBetweenDisplayed", "C13_EachTypeOnce",
         "C13_Reference", "C13_MergeNoSelfLoop", "C13_MergeBetweenNodes"]


def plan(pid, tier, seed):
    quick = tier == "quick"
    if quick:
        mc = [
            {"module": "Arch", "cfg": "Arch_MC_quick.cfg", "emit": True, "sample": 1200, "properties": PROPS, "timeout": 600},
            {"module": "Arch", "cfg": "Arch_MC_merge_quick.cfg", "emit": True, "sample": 1200, "properties": PROPS, "timeout": 600},
        ]
    else:
        mc = [
            {"module": "Arch", "cfg": "Arch_MC_quick.cfg", "emit": True, "sample": 12000, "properties": PROPS, "timeout": 900},
            {"module": "Arch", "cfg": "Arch_MC_merge.cfg", "emit": True, "sample": 26000, "properties": PROPS, "timeout": 900},
            {"module": "Arch", "cfg": "Arch_Gen_nested.cfg", "emit": True, "sample": 24000, "properties": PROPS, "timeout": 900},
            {"module": "Arch", "cfg": "Arch_MC_thorough.cfg", "emit": False, "properties": PROPS, "timeout": 2400},
            {"module": "Arch", "cfg": "Arch_MC_rel2.cfg", "emit": False, "properties": PROPS, "timeout": 2400},
            {"module": "Arch", "cfg": "Arch_MC_nested.cfg", "emit": False, "properties": PROPS, "timeout": 2400, "coverage": True},
        ]
    return {
        "harness": "arch",
        "needs_coca": True,
        "mc": mc,
        "gen": [],
        "rand": 500 if quick else 15000,
        "trace": TRACE,
    }


def case_from_tlc(obj, h, g):
    inp = obj["input"]
    # ToJson of an empty sequence is [], which is what the harness expects everywhere
    inp["via"] = "cli" if int(h[:6], 16) % 6 == 0 else "api"
    # every other filtered in-process case first renders the all-inclusive view of the same graph object
    inp["pre"] = bool(inp.get("filter")) and inp["via"] == "api" and int(h[6:8], 16) % 2 == 0
    return {"case": "tlc-" + h, "input": inp}


def _t(pkg, name, impls=(), ext="", fields=(), calls=(), main_calls=(), other=()):
    ms = []
    if calls:
        ms.append({"name": "run", "calls": [{"pkg": p, "node": n} for p, n in calls]})
    if main_calls:
        ms.append({"name": "main", "calls": [{"pkg": p, "node": n} for p, n in main_calls]})
    for mname, cs in other:
        ms.append({"name": mname, "calls": [{"pkg": p, "node": n} for p, n in cs]})
    return {"pkg": list(pkg), "name": name, "impls": list(impls), "ext": ext,
            "fields": [{"pkg": p, "node": n} for p, n in fields], "methods": ms}


def fixed_cases(pid, tier, seed):
    """Regression shapes (abstract inputs only; the Reference decides what is right)."""
    shapes = {
        # merged relations whose ends concatenate to the same string: a+bb = ab+b, b+bb = bb+b
        "collide-4": [_t(["a"], "A", fields=[("bb", "B")]), _t(["ab"], "A", fields=[("b", "B")]), _t(["b"], "B"), _t(["bb"], "B")],
        "collide-2": [_t(["b"], "B", fields=[("bb", "B")]), _t(["bb"], "B", calls=[("b", "B")])],
        "collide-top": [_t(["a", "x"], "A", fields=[("bb.y", "B")]), _t(["ab", "x"], "A", ext="b.y.B"), _t(["b", "y"], "B"), _t(["bb", "y"], "B")],
        # relations that leave the graph: Main, an absent type of a project package, a library type
        "leaving": [_t(["a"], "A", fields=[("b", "Main")], impls=["b.Gone", "java.io.Serializable"], ext="x.E"),
                    _t(["b"], "B"), _t(["b"], "Main", fields=[("a", "A")], calls=[("a", "A")])],
        # every kind of relation, self relations, main method
        "kinds": [_t(["a"], "A", impls=["a.I"], ext="b.B", fields=[("a", "A")], calls=[("a", "A"), ("b", "C"), ("x", "E")], main_calls=[("b", "D")]),
                  _t(["a"], "I"), _t(["b"], "B"), _t(["b"], "C"), _t(["b"], "D", calls=[("a", "Main")]), _t(["a"], "Main", fields=[("b", "B")])],
        # several items of one kind in one class; method and type names that only resemble main / Main
        "several": [_t(["a"], "A", impls=["a.I", "b.J", "x.K"], ext="b.B", fields=[("b", "J"), ("a", "AppMain"), ("b", "B")],
                       calls=[("b", "C"), ("a", "I")], main_calls=[("b", "D")],
                       other=[("mainLoop", [("b", "D"), ("b", "C")]), ("Main", [("a", "MainApp")]), ("main", [("b", "E")])]),
                    _t(["a"], "I"), _t(["b"], "J"), _t(["b"], "B"), _t(["b"], "C"), _t(["b"], "D"), _t(["b"], "E"),
                    _t(["a"], "AppMain", ext="a.MainApp"), _t(["a"], "MainApp", fields=[("a", "A")]), _t(["b"], "main", impls=["a.I", "a.A"])],
        # nested packages and the unnamed package
        "nested": [_t(["a"], "A", fields=[("a.b", "B")]), _t(["a", "b"], "B", fields=[("", "C")]), _t([], "C", fields=[("a", "A")], impls=["D"]),
                   _t([], "D", ext=".C")],
    }
    out = []
    for name, types in sorted(shapes.items()):
        for mh, mp in ((False, False), (True, False), (False, True), (True, True)):
            for flt in ([], ["a"], ["b.", "B"]):
                for via in ("api", "cli"):
                    out.append({"case": "fixed-%s-%d%d-%s-%s" % (name, mh, mp, "_".join(flt) or "all", via),
                                "input": {"types": types, "filter": flt, "mergeH": mh, "mergeP": mp, "via": via,
                                          "pre": bool(flt) and via == "api" and len(name) % 2 == 0}})
    return out


def nontrivial(rec):
    # a model with at least one relation of any kind
    for t in rec["input"]["types"]:
        if t["impls"] or t["ext"] or t["fields"] or any(m["calls"] for m in t["methods"]):
            return True
    return False


def extra_evidence(records):
    via = {}
    modes = {}
    for r in records:
        i = r["input"]
        via[i["via"]] = via.get(i["via"], 0) + 1
        m = ("H" if i["mergeH"] else "") + ("P" if i["mergeP"] else "") or "none"
        modes[m] = modes.get(m, 0) + 1
    return {"records_by_driver": via, "records_by_merge_setting": modes,
            "filtered_records": sum(1 for r in records if r["input"]["filter"])}
