"""Architecture graph suite (C13): ArchApp.Analysis, MergeHeaderFile, ToMapDot, `coca arch`."""

TRACE = ("Arch_Trace", "Arch_Trace.cfg")
PROPS = ["C13_NodesExact", "C13_EdgesExact", "C13_QuotientExact", "C13_DotEdgesBetweenDisplayed", "C13_EachTypeOnce",
         "C13_Reference"]


def plan(pid, tier, seed):
    quick = tier == "quick"
    mc = []
    return {
        "harness": "arch",
        "needs_coca": True,
        "mc": mc,
        "gen": [],
        "rand": 600 if quick else 20000,
        "trace": TRACE,
    }


def case_from_tlc(obj, h, g):
    inp = obj["input"]
    return {"case": "tlc-" + h, "input": inp}


def nontrivial(rec):
    # a model with at least one relation of any kind
    for t in rec["input"]["types"]:
        if t["impls"] or t["ext"] or t["fields"] or any(m["calls"] for m in t["methods"]):
            return True
    return False
