"""stats suite (C18): reference counts, evaluation summary and concept word counts equal what the model contains.

Machine spec/Stats.tla (three parts: BuildCallMap + SortWord; identifier listener + SummaryMethodIdentifier +
NullPointException.EvaluateList; the camel-case splitter loop + removeNormalWords) is model-checked against the
Reference spec/StatsRef.tla. Every abstract input TLC explored (sampled in the quick tier) is rendered to Java
sources or directly to a code model and replayed on the real code (in-process API; 1 in 16 through the coca
binary), plus seeded random projects from the harness generator; spec/Stats_Trace.tla judges the observations.
"""
import random

TRACE = ("Stats_Trace", "Stats_Trace.cfg")
PROPS_ALL = ["C18_CountsConserved", "C18_CountReference", "C18_StaticIsPermutationInvariant", "C18_NullableExactOnce",
             "C18_SummaryNumbers", "C18_NoStaleMethodState", "C18_ConceptSum"]


def _mc(cfg, sample, timeout=900, coverage=False):
    return {"module": "Stats", "cfg": cfg, "emit": True, "sample": sample, "properties": PROPS_ALL, "timeout": timeout,
            "coverage": coverage}


def plan(pid, tier, seed):
    quick = tier == "quick"
    if quick:
        mc = [
            _mc("Stats_MC_members_quick.cfg", 400),     # class bodies of <= 2 members (4 161 inputs)
            _mc("Stats_MC_quick.cfg", 900),             # one method, 821 modifier lists x 13 return sequences (10 674)
            _mc("Stats_MC_count_quick.cfg", 400),       # 9 261 call models
            _mc("Stats_MC_concept_quick.cfg", 300),     # 2 652 name lists
        ]
    else:
        mc = [
            _mc("Stats_MC_members_quick.cfg", None),               # all 4 161 class bodies replayed
            _mc("Stats_MC_quick.cfg", 4000),
            _mc("Stats_MC_count_quick.cfg", 3000),
            _mc("Stats_MC_concept_quick.cfg", None),               # all 2 652 name lists replayed
            _mc("Stats_MC_thorough.cfg", 9000, 3600),              # 2.47 M states, 234 441 inputs
            _mc("Stats_MC_members_thorough.cfg", 6000, 3600, True),      # 2.32 M states, 200 257 inputs
            _mc("Stats_MC_members3.cfg", 3000, 3600),              # 121 270 states, 9 724 inputs
            _mc("Stats_MC_count_thorough.cfg", 4500, 3600, True),  # 2.69 M states, 185 193 models
            _mc("Stats_MC_count_overload.cfg", 2000, 3600),        # 28 561 models with two overloads sharing a key
            _mc("Stats_MC_concept_thorough.cfg", 3000, 3600, True),  # 501 381 states, 29 412 name lists
        ]
    return {
        "harness": "stats",
        "needs_coca": True,
        "mc": mc,
        "gen": [],
        "rand": 500 if quick else 5000,
        "trace": TRACE,
        "run_timeout": 6000,
    }


def _fix_lists(inp):
    for c in inp["classes"]:
        if not isinstance(c.get("name"), list):
            c["name"] = []
        if not isinstance(c.get("members"), list):
            c["members"] = []
        for m in c["members"]:
            for k in ("name", "pre", "rets", "calls"):
                if not isinstance(m.get(k), list):
                    m[k] = []


def case_from_tlc(obj, h, g):
    """The Machine's abstract input, completed with how the model is produced (Java sources through the real
    passes / model written directly) and how the commands are driven (API / coca binary); chosen by case hash."""
    inp = obj["input"]
    _fix_lists(inp)
    rnd = random.Random(int(h, 16))
    part = obj.get("part")
    if part == "eval":
        src = "java"                       # modifiers and returns must come through the identifier listener
    else:
        src = "model" if rnd.randrange(2) == 0 else "java"
    via = "cli" if rnd.randrange(16) == 0 else "api"
    c = {"case": "tlc-%s-%s" % (part, h), "input": {"src": src, "via": via, "classes": inp["classes"]}}
    m = obj.get("machine")
    if isinstance(m, dict):
        m["part"] = part
        c["machine"] = m
    return c


def _m(name, pre=(), rets=(), calls=(), params=0, kind="method"):
    return {"kind": kind, "name": list(name), "pre": list(pre), "rets": list(rets), "params": params, "calls": list(calls)}


def fixed_cases(pid, tier, seed):
    """Regression seeds: the concrete shapes of the defects this suite found on the unchanged tree (see proposed_fixes/C18.md),
    through the API and through the coca binary."""
    svc = {"pkg": "p", "name": ["User", "Service"], "kind": "class", "members": [
        _m(["s"], ["static", "public"]),                                  # binary search missed `static public`
        _m(["t"], ["public", "static"], calls=[{"pkg": "p", "cls": "OrderUtil", "name": "getOrderName"}] * 2),
        _m(["u"], ["final", "static", "public"], calls=[{"pkg": "p", "cls": "UserService", "name": "s"},
                                                          {"pkg": "p", "cls": "OrderUtil", "name": "missing"}]),
        _m(["a"], ["@Nullable", "public"], ["other"]),
        _m(["b"], ["public", "@Nullable"], ["other"]),                    # annotation after a keyword
        _m(["c"], ["@Override", "@Nullable", "public"], ["other"]),       # annotation after an annotation
        _m(["d"], ["public"], ["null", "other"], params=1),               # null on an earlier path, last return wins
        _m(["e"], ["public"], ["cmp"]),                                   # mentions null (known finding)
        _m(["x", "Y"], ["public"], ["other"]),                            # glued head (known finding)
        _m(["get", "Total"], ["public"], ["other"]),
        _m(["set", "Total"], ["public"], [], params=1)]}
    util = {"pkg": "p", "name": ["Order", "Util"], "kind": "class", "members": [
        _m(["get", "Order", "Name"], ["public"], ["str"]),
        _m(["find", "User", "Service"], ["public", "synchronized"], ["other"],
           calls=[{"pkg": "p", "cls": "UserService", "name": ""}, {"pkg": "p", "cls": "UserService", "name": "a"}])]}
    out = []
    for via in ("api", "cli"):
        out.append({"case": "fixed-defect-shapes-" + via, "input": {"src": "java", "via": via, "classes": [svc, util]}})
    return out


def nontrivial(rec):
    # at least one method that carries something the property speaks about
    for c in rec["input"]["classes"]:
        for m in c["members"]:
            if m["pre"] or m["rets"] or m["calls"] or len(m["name"]) > 1:
                return True
    return False


def _machine_agrees(r):
    """The Machine's own report against the real code's (informational: drift of the specification, never a verdict)."""
    m, o = r["machine"], r["observed"]
    part = m.get("part")
    lst = lambda x: x if isinstance(x, list) else []
    if o["panic"]:
        return False
    if part == "count":
        return [list(x) for x in lst(m.get("rows"))] == [list(x) for x in o["count"]["rows"]]
    if part == "eval":
        e = o["eval"]
        same = (m["classes"], m["methods"], m["statics"], m["utils"]) == (e["classes"], e["methods"], e["statics"], e["utils"])
        if e["listed"]:
            return same and sorted(lst(m.get("nullable"))) == sorted(e["nullable"])
        return same and len(lst(m.get("nullable"))) == e["nullableCount"]
    if part == "concept":
        return sorted([list(x) for x in lst(m.get("rows"))]) == sorted([list(x) for x in o["concept"]["rows"]])
    return True


def extra_evidence(records):
    agree = differ = 0
    drift = []
    for r in records:
        if not isinstance(r.get("machine"), dict):
            continue
        if _machine_agrees(r):
            agree += 1
        else:
            differ += 1
            if len(drift) < 5:
                drift.append(r["case"])
    n_cli = sum(1 for r in records if r["input"].get("via") == "cli")
    n_model = sum(1 for r in records if r["input"].get("src") == "model")
    ev = {"machine_vs_code_same_report": agree, "machine_vs_code_different_report": differ, "DRIFT_examples": drift,
          "cases_via_cli": n_cli, "cases_model_written_directly": n_model,
          "cases_through_java_sources": len(records) - n_model,
          "classes_rendered": sum(len(r["input"]["classes"]) for r in records),
          "members_rendered": sum(len(c["members"]) for r in records for c in r["input"]["classes"]),
          "resolving_call_sites_listed": sum(row[1] for r in records for row in r["observed"]["count"]["rows"]),
          "nullable_entries_observed": sum(len(r["observed"]["eval"]["nullable"]) for r in records),
          "concept_rows_observed": sum(len(r["observed"]["concept"]["rows"]) for r in records),
          "panics_observed": sum(1 for r in records if r["observed"]["panic"]),
          # side observation, not judged (see proposed_fixes/C18.md): `coca evaluate` writes an EMPTY evaluate.json whenever a
          # standard deviation is NaN (fewer than two classes or fewer than two get*/set* methods)
          "cli_evaluate_report_file": {k: sum(1 for r in records if r["observed"]["eval"].get("reportFile") == k)
                                       for k in ("ok", "empty", "unreadable")}}
    return ev
