"""visual suite (extension X03): the D3 data of `coca arch -v` (visual.FromDeps): one node per class / called class,
one link per recorded call with a callee class, value = number of links of the same pair, unique ids, groups.

Machine spec/X03Visual.tla (the two loops of FromDeps with nodeMap / sourceTargetMap / links as registers) is
model-checked against the Reference spec/X03VisualRef.tla; the models TLC explored are replayed on the real code
(in-process, a share through `coca arch -v`), plus seeded random wider models and Java projects analysed by the real
identifier + full passes; spec/X03Visual_Trace.tla judges the observations.
"""
import random

TRACE = ("X03Visual_Trace", "X03Visual_Trace.cfg")
PROPS = ["X03_NodesExact", "X03_LinksExact", "X03_LinkValues", "X03_Groups", "X03_CounterTable"]


def plan(pid, tier, seed):
    quick = tier == "quick"
    if quick:
        mc = [
            # 190 788 states, ~6 s: 29 757 models, sampled
            {"module": "X03Visual", "cfg": "X03Visual_MC_quick.cfg", "emit": True, "sample": 2500, "properties": PROPS, "timeout": 600},
            # names containing the separator of the concatenated counter key: 194 032 states, 28 900 models, sampled
            {"module": "X03Visual", "cfg": "X03Visual_MC_keys.cfg", "emit": True, "sample": 1500, "properties": PROPS, "timeout": 600},
        ]
    else:
        mc = [
            {"module": "X03Visual", "cfg": "X03Visual_MC_quick.cfg", "emit": True, "sample": None, "properties": PROPS, "timeout": 900},
            {"module": "X03Visual", "cfg": "X03Visual_MC_keys.cfg", "emit": True, "sample": None, "properties": PROPS, "timeout": 900},
            {"module": "X03Visual", "cfg": "X03Visual_MC_thorough.cfg", "emit": True, "sample": 60000, "properties": PROPS,
             "timeout": 3600, "coverage": True},
        ]
    return {
        "harness": "visual",
        "needs_coca": True,
        "mc": mc,
        "gen": [],
        "rand": 1500 if quick else 30000,
        "trace": TRACE,
        "run_timeout": 6000,
    }


def case_from_tlc(obj, h, g):
    """The model TLC explored, handed to the real code in-process; one in 25 (by hash) through the coca binary."""
    inp = obj["input"]
    rnd = random.Random(int(h, 16))
    deps = inp["deps"] if isinstance(inp.get("deps"), list) else []
    for d in deps:
        if not isinstance(d.get("calls"), list):
            d["calls"] = []
    via = "cli" if rnd.randrange(25) == 0 else "model"
    return {"case": "tlc-" + h, "input": {"via": via, "deps": deps}}


def nontrivial(rec):
    # a model with at least one recorded call
    return any(d["calls"] for d in rec.get("model", []))


def extra_evidence(records):
    pairs_multi = 0
    for r in records:
        seen = {}
        for d in r["model"]:
            for c in d["calls"]:
                if c["name"]:
                    k = (d["pkg"], d["name"], c["pkg"], c["name"])
                    seen[k] = seen.get(k, 0) + 1
        if any(v > 1 for v in seen.values()):
            pairs_multi += 1
    return {"models_via_java": sum(1 for r in records if r["input"]["via"] == "java"),
            "models_via_cli": sum(1 for r in records if r["input"]["via"] == "cli"),
            "models_with_a_pair_linked_more_than_once": pairs_multi,
            "models_with_a_call_without_class": sum(1 for r in records if any(not c["name"] for d in r["model"] for c in d["calls"])),
            "panics_observed": sum(1 for r in records if r["observed"]["panic"])}
