#!/usr/bin/env python3
"""bin/g4tla.py <XParser.g4> <XLexer.g4> <out.tla> [module-name] [--as-token rule=CLASS ...]

Translates the ANTLR4 parser grammar the tool ships into a TLA+ constant module: every rule becomes a
sequence of alternatives, every alternative a sequence of symbols [k, v]:
   k = "N"  v = rule name            (non-terminal; EBNF groups / ? / * / + are desugared into auxiliary rules)
   k = "T"  v = the token's text     (a literal token: keyword, operator, separator)
   k = "K"  v = the token class name (IDENTIFIER, DECIMAL_LITERAL, STRING_LITERAL ...: the lexeme is chosen later)
plus MinAlt (an alternative of minimal derivation height per rule, used once a derivation must be closed) and
MinSize (the number of tokens of the smallest sentence of a rule). The module is regenerated from /repo's
current grammar by every run of the C09 check (Java) and of the C20 `frontsderive` suite (Python, Go), so the
specification follows the grammar the tool ships. Semantic predicates `{...}?` and actions are dropped (the
derivation is then a superset of the language; the front-end's own parser decides which sentences are inside the
quantifier); tokens declared in a `tokens { }` block (Python's INDENT / DEDENT / LINE_BREAK) have no lexer rule and
come out as token classes the renderer interprets; `--as-token eos=EOS` does the same for a parser rule.
"""
import re
import sys


def tokenize(src):
    out = []
    i, n = 0, len(src)
    while i < n:
        c = src[i]
        if c.isspace():
            i += 1
        elif src.startswith("//", i):
            j = src.find("\n", i)
            i = n if j < 0 else j
        elif src.startswith("/*", i):
            j = src.find("*/", i + 2)
            i = n if j < 0 else j + 2
        elif c == "'":
            j = i + 1
            while src[j] != "'":
                j += 2 if src[j] == "\\" else 1
            out.append(("LIT", src[i + 1:j]))
            i = j + 1
        elif c == "[":  # lexer char set
            j = i + 1
            while src[j] != "]":
                j += 2 if src[j] == "\\" else 1
            out.append(("SET", src[i:j + 1]))
            i = j + 1
        elif c == "{":  # action / options block
            depth, j = 1, i + 1
            while depth:
                if src[j] in "\"'":  # a string / rune literal of the target language inside an action: braces in it do not count
                    q = src[j]
                    j += 1
                    while src[j] != q:
                        j += 2 if src[j] == "\\" else 1
                elif src[j] == "{":
                    depth += 1
                elif src[j] == "}":
                    depth -= 1
                j += 1
            out.append(("ACT", src[i:j]))
            i = j
        elif c.isalpha() or c == "_":
            j = i
            while j < n and (src[j].isalnum() or src[j] == "_"):
                j += 1
            out.append(("ID", src[i:j]))
            i = j
        elif src.startswith("+=", i) or src.startswith("->", i) or src.startswith("..", i):
            out.append(("P", src[i:i + 2]))
            i += 2
        else:
            out.append(("P", c))
            i += 1
    return out


def unescape(lit):
    return lit.replace("\\'", "'").replace("\\\\", "\\")


class G4:
    def __init__(self, toks):
        self.t = toks
        self.p = 0
        self.rules = {}   # name -> list of alternatives (list of (kind, value)) after desugaring
        self.order = []
        self.cur = None
        self.aux = 0

    def peek(self, k=0):
        return self.t[self.p + k] if self.p + k < len(self.t) else ("EOF", "")

    def eat(self, kind=None, val=None):
        tk = self.peek()
        if (kind and tk[0] != kind) or (val is not None and tk[1] != val):
            raise SyntaxError("expected %s %s, got %s at %d" % (kind, val, tk, self.p))
        self.p += 1
        return tk

    def header(self):
        # (parser|lexer)? grammar X ; options {...} etc.
        while True:
            tk = self.peek()
            if tk == ("ID", "parser") or tk == ("ID", "lexer") or tk == ("ID", "grammar"):
                while self.eat() != ("P", ";"):
                    pass
            elif tk[0] == "ID" and tk[1] in ("options", "tokens", "channels", "import"):
                self.eat()
                if self.peek()[0] == "ACT":
                    self.eat()
                else:
                    while self.eat() != ("P", ";"):
                        pass
            elif tk == ("P", "@"):
                self.eat()
                while self.peek()[0] != "ACT":
                    self.eat()
                self.eat()
            else:
                return

    def newaux(self, tag):
        self.aux += 1
        name = "%s__%s%d" % (self.cur, tag, self.aux)
        self.order.append(name)
        return name

    def parse(self):
        self.header()
        while self.peek()[0] != "EOF":
            frag = False
            if self.peek() == ("ID", "fragment"):
                self.eat()
                frag = True
            name = self.eat("ID")[1]
            self.cur = name
            self.aux = 0
            self.order.append(name)
            self.eat("P", ":")
            alts = self.altlist()
            # lexer commands
            self.eat("P", ";")
            self.rules[name] = alts
        return self

    def altlist(self):
        alts = [self.alt()]
        while self.peek() == ("P", "|"):
            self.eat()
            alts.append(self.alt())
        return alts

    def alt(self):
        syms = []
        if self.peek() == ("P", "<"):
            while self.eat() != ("P", ">"):
                pass
        while True:
            tk = self.peek()
            if tk in (("P", "|"), ("P", ";"), ("P", ")")) or tk[0] == "EOF":
                break
            if tk == ("P", "#"):
                self.eat()
                self.eat("ID")
                break
            if tk == ("P", "->"):  # lexer command
                while self.peek() not in (("P", ";"), ("P", "|")):
                    self.eat()
                break
            if tk[0] == "ACT":
                self.eat()
                if self.peek() == ("P", "?"):
                    self.eat()
                continue
            # label
            if tk[0] == "ID" and self.peek(1) in (("P", "="), ("P", "+=")):
                self.eat()
                self.eat()
            syms.append(self.element())
        return syms

    def element(self):
        tk = self.eat()
        if tk[0] == "ID":
            atom = ("N", tk[1]) if tk[1][0].islower() else ("TOK", tk[1])
        elif tk[0] == "LIT":
            atom = ("T", unescape(tk[1]))
        elif tk == ("P", "("):
            alts = self.altlist()
            self.eat("P", ")")
            name = self.newaux("g")
            self.rules[name] = alts
            atom = ("N", name)
        elif tk[0] == "SET" or tk == ("P", "~") or tk == ("P", "."):
            atom = ("SETLIKE", tk[1])  # lexer only
            if tk == ("P", "~"):
                self.element()
        else:
            raise SyntaxError("unexpected %s at %d" % (tk, self.p))
        if self.peek() == ("P", ".."):  # lexer range 'a'..'z'
            self.eat()
            self.eat()
            atom = ("SETLIKE", "range")
        suf = self.peek()
        if suf in (("P", "?"), ("P", "*"), ("P", "+")):
            self.eat()
            if self.peek() == ("P", "?"):
                self.eat()
            if suf[1] == "?":
                name = self.newaux("o")
                self.rules[name] = [[atom], []]
                return ("N", name)
            name = self.newaux("s")
            self.rules[name] = [[], [atom, ("N", name)]]
            if suf[1] == "*":
                return ("N", name)
            plus = self.newaux("p")
            self.rules[plus] = [[atom, ("N", name)]]
            return ("N", plus)
        return atom


def tla_str(s):
    return '"' + s.replace("\\", "\\\\").replace('"', '\\"') + '"'


def main():
    args, as_token = [], {}
    it = iter(sys.argv[1:])
    for a in it:
        if a == "--as-token":      # --as-token rule=CLASS : every reference to this parser rule becomes the token class CLASS
            r, _, c = next(it).partition("=")   # (a rule the renderer interprets, e.g. Go's `eos` = ';' or a line break)
            as_token[r] = c
        else:
            args.append(a)
    parser_g4, lexer_g4, out = args[0:3]
    module = args[3] if len(args) > 3 else "JavaGrammar"
    lex = G4(tokenize(open(lexer_g4, encoding="utf-8").read())).parse()
    literal = {}
    for name, alts in lex.rules.items():
        if len(alts) == 1 and len(alts[0]) == 1 and alts[0][0][0] == "T":
            literal[name] = alts[0][0][1]
    g = G4(tokenize(open(parser_g4, encoding="utf-8").read())).parse()
    rules = {}
    for name in g.order:
        if name.split("__")[0] in as_token:
            continue
        alts = []
        for a in g.rules[name]:
            if a == [("TOK", "EOF")] and len(g.rules[name]) > 1:
                continue  # `(LINE_BREAK | EOF)`: the EOF alternative can only be taken at the very end of a file; the
                #           renderer realises it there by leaving out the last line break, the derivation never takes it
            syms = []
            for k, v in a:
                if k == "N" and v in as_token:
                    syms.append(("K", as_token[v]))
                elif k == "TOK":
                    if v == "EOF":
                        continue
                    syms.append(("T", literal[v]) if v in literal else ("K", v))
                else:
                    syms.append((k, v))
            alts.append(syms)
        rules[name] = alts
    # minimal height / size
    INF = 10 ** 9
    h = {r: INF for r in rules}
    size = {r: INF for r in rules}
    changed = True
    while changed:
        changed = False
        for r, alts in rules.items():
            for a in alts:
                hh = 1 + max([0] + [h[v] if k == "N" else 0 for k, v in a])
                ss = sum(size[v] if k == "N" else 1 for k, v in a)
                if hh < h[r]:
                    h[r] = hh
                    changed = True
                if ss < size[r]:
                    size[r] = ss
                    changed = True
    dead = [r for r in rules if h[r] >= INF]
    if dead:
        sys.exit("unproductive rules: %s" % dead)
    minalt = {}
    for r, alts in rules.items():
        best = None
        for i, a in enumerate(alts):
            hh = 1 + max([0] + [h[v] if k == "N" else 0 for k, v in a])
            ss = sum(size[v] if k == "N" else 1 for k, v in a)
            key = (hh, ss, i)
            if best is None or key < best[0]:
                best = (key, i + 1)
        minalt[r] = best[1]
    names = list(rules)
    with open(out, "w", encoding="utf-8") as f:
        f.write("---------------------------- MODULE %s ----------------------------\n" % module)
        f.write("(* GENERATED by bin/g4tla.py from %s + %s : do not edit. *)\n" % (parser_g4.split("/")[-1], lexer_g4.split("/")[-1]))
        f.write("(* %d rules (%d of the grammar, the rest desugared EBNF), %d alternatives. *)\n" % (
            len(names), sum(1 for n in names if "__" not in n), sum(len(a) for a in rules.values())))
        f.write("EXTENDS TLC\n\n")
        f.write("Sy(k, v) == [k |-> k, v |-> v]\n\n")
        f.write("Alts ==\n")
        lines = []
        for r in names:
            alts = ", ".join("<<" + ", ".join("Sy(%s, %s)" % (tla_str(k), tla_str(v)) for k, v in a) + ">>" for a in rules[r])
            lines.append("  %s :> <<%s>>" % (tla_str(r), alts))
        f.write(" @@\n".join(lines) + "\n\n")
        f.write("MinAlt ==\n" + " @@\n".join("  %s :> %d" % (tla_str(r), minalt[r]) for r in names) + "\n\n")
        f.write("MinSize ==\n" + " @@\n".join("  %s :> %d" % (tla_str(r), size[r]) for r in names) + "\n\n")
        f.write("GrammarRules == {" + ", ".join(tla_str(r) for r in names if "__" not in r) + "}\n")
        f.write("TokenClasses == {" + ", ".join(sorted({tla_str(v) for a in rules.values() for s in a for k, v in s if k == "K"})) + "}\n")
        f.write("=============================================================================\n")
    print("%s: %d rules, %d alternatives, token classes %s" % (out, len(names), sum(len(a) for a in rules.values()),
                                                          sorted({v for a in rules.values() for s in a for k, v in s if k == "K"})))


if __name__ == "__main__":
    main()
